pub fn main_attrs() { eprintln!("not built yet"); std::process::exit(2); }
