//! `gqlv attrs`: the real attribute functions of graphql_query_derive (source file included
//! with #[path]) applied to rendered `#[graphql(...)]` text (C18).

use crate::{emit, quiet_panics, read_jobs, take_panic};
use serde_json::{json, Value};

#[allow(dead_code)]
#[path = "/repo/graphql_query_derive/src/attributes.rs"]
mod attributes;

fn res_str(r: Result<String, syn::Error>) -> Value {
    match r {
        Ok(s) => json!({"ok": s}),
        Err(e) => json!({"err": e.to_string()}),
    }
}

fn one(source: &str) -> Value {
    let ast: syn::DeriveInput = match syn::parse_str(source) {
        Ok(a) => a,
        Err(e) => return json!({"parse_error": e.to_string()}),
    };
    let mut kv = serde_json::Map::new();
    for k in [
        "query_path",
        "schema_path",
        "response_derives",
        "variables_derives",
        "custom_scalars_module",
        "deprecated",
        "normalization",
        "fragments_other_variant",
    ] {
        kv.insert(k.to_string(), res_str(attributes::extract_attr(&ast, k)));
    }
    let list = match attributes::extract_attr_list(&ast, "extern_enums") {
        Ok(v) => json!({"ok": v}),
        Err(e) => json!({"err": e.to_string()}),
    };
    let dep = match attributes::extract_deprecation_strategy(&ast) {
        Ok(d) => json!({"ok": format!("{:?}", d).to_lowercase()}),
        Err(e) => json!({"err": e.to_string()}),
    };
    let norm = match attributes::extract_normalization(&ast) {
        Ok(d) => json!({"ok": format!("{:?}", d).to_lowercase()}),
        Err(e) => json!({"err": e.to_string()}),
    };
    json!({
        "kv": kv,
        "extern_enums": list,
        "deprecation": dep,
        "normalization": norm,
        "fragments_other_variant": attributes::extract_fragments_other_variant(&ast),
        "skip_serializing_none": attributes::extract_skip_serializing_none(&ast),
        "ident": ast.ident.to_string(),
        "vis": quote::ToTokens::to_token_stream(&ast.vis).to_string(),
    })
}

pub fn main_attrs() {
    quiet_panics();
    for job in read_jobs() {
        let id = job.get("id").cloned().unwrap_or(Value::Null);
        let source = job.get("source").and_then(|v| v.as_str()).unwrap_or("").to_string();
        match std::panic::catch_unwind(|| one(&source)) {
            Ok(mut v) => {
                v["id"] = id;
                emit(&v)
            }
            Err(_) => emit(&json!({"id": id, "panic": take_panic()})),
        }
    }
}
