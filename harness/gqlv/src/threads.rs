//! `gqlv threads`: run a plan of generation calls on real threads against the hooked library
//! (C08). One job per process invocation is the normal use (the caches are process-wide):
//!   {"threads": [{"id": 1, "calls": [{"call": "base", "job": {..gen job..}}, ...]}, ...],
//!    "schedule": [1, 2, 2, 1] | null}
//! Output: {"results": {"t1": [{"call","status","msg","tokens"}]}, "events": [..hook events..]}

use crate::{emit, gen, quiet_panics, read_jobs};
use graphql_client_codegen::verif;
use serde_json::{json, Value};
use std::path::Path;
use std::sync::{Arc, Barrier};

pub fn main_threads() {
    quiet_panics();
    for job in read_jobs() {
        let threads = job["threads"].as_array().cloned().unwrap_or_default();
        let schedule: Option<Vec<u64>> = job.get("schedule").and_then(|s| s.as_array()).map(|a| {
            a.iter().filter_map(|x| x.as_u64()).collect()
        });
        let _ = verif::take_events();
        verif::set_schedule(schedule);
        let barrier = Arc::new(Barrier::new(threads.len()));
        let mut handles = Vec::new();
        for t in threads {
            let barrier = barrier.clone();
            handles.push(std::thread::spawn(move || {
                let id = t["id"].as_u64().unwrap_or(0);
                verif::set_thread_id(id);
                quiet_panics();
                barrier.wait();
                let mut out = Vec::new();
                for c in t["calls"].as_array().cloned().unwrap_or_default() {
                    let name = c["call"].as_str().unwrap_or("").to_string();
                    verif::emit("CallBegin", "-", Path::new(&name));
                    let mut r = gen::run_job(&c["job"]);
                    verif::emit("CallEnd", "-", Path::new(&name));
                    r["call"] = json!(name);
                    out.push(r);
                }
                (id, out)
            }));
        }
        let mut results = serde_json::Map::new();
        for h in handles {
            match h.join() {
                Ok((id, out)) => {
                    results.insert(format!("t{}", id), Value::Array(out));
                }
                Err(_) => {
                    results.insert("thread_died".to_string(), json!(true));
                }
            }
        }
        verif::set_schedule(None);
        let events: Vec<Value> = verif::take_events()
            .into_iter()
            .filter_map(|l| serde_json::from_str(&l).ok())
            .collect();
        emit(&json!({"id": job.get("id").cloned().unwrap_or(Value::Null), "results": results, "events": events}));
    }
}
