pub fn main_threads() { eprintln!("not built yet"); std::process::exit(2); }
