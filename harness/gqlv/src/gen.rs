//! `gqlv gen`: one generation call per job through the public library API of
//! graphql_client_codegen (the working tree in /repo), under catch_unwind.

use crate::{emit, inventory, quiet_panics, read_jobs, take_panic};
use graphql_client_codegen::{
    deprecation::DeprecationStrategy, generate_module_token_stream,
    generate_module_token_stream_from_string, normalization::Normalization, CodegenMode,
    GraphQLClientCodegenOptions,
};
use serde_json::{json, Value};
use std::path::PathBuf;

pub fn build_options(o: &Value) -> Result<GraphQLClientCodegenOptions, String> {
    let mode = match o.get("mode").and_then(|v| v.as_str()).unwrap_or("cli") {
        "derive" => CodegenMode::Derive,
        _ => CodegenMode::Cli,
    };
    let mut opts = GraphQLClientCodegenOptions::new(mode);
    if let Some(s) = o.get("operation_name").and_then(|v| v.as_str()) {
        opts.set_operation_name(s.to_string());
    }
    if let Some(s) = o.get("struct_ident").and_then(|v| v.as_str()) {
        let ident = syn::parse_str::<proc_macro2::Ident>(s).map_err(|e| e.to_string())?;
        opts.set_struct_ident(ident);
    }
    if let Some(s) = o.get("struct_name").and_then(|v| v.as_str()) {
        opts.set_struct_name(s.to_string());
    }
    match o.get("normalization").and_then(|v| v.as_str()) {
        Some("rust") => opts.set_normalization(Normalization::Rust),
        Some("none") => opts.set_normalization(Normalization::None),
        _ => {}
    }
    if let Some(s) = o.get("response_derives").and_then(|v| v.as_str()) {
        opts.set_response_derives(s.to_string());
    }
    if let Some(s) = o.get("variables_derives").and_then(|v| v.as_str()) {
        opts.set_variables_derives(s.to_string());
    }
    match o.get("deprecation").and_then(|v| v.as_str()) {
        Some("allow") => opts.set_deprecation_strategy(DeprecationStrategy::Allow),
        Some("warn") => opts.set_deprecation_strategy(DeprecationStrategy::Warn),
        Some("deny") => opts.set_deprecation_strategy(DeprecationStrategy::Deny),
        _ => {}
    }
    match o.get("module_visibility").and_then(|v| v.as_str()) {
        Some("pub") => opts.set_module_visibility(syn::parse_quote!(pub)),
        Some("inherited") => opts.set_module_visibility(syn::Visibility::Inherited),
        Some(other) => {
            let v: syn::Visibility = syn::parse_str(other).map_err(|e| e.to_string())?;
            opts.set_module_visibility(v)
        }
        None => {}
    }
    if let Some(s) = o.get("custom_scalars_module").and_then(|v| v.as_str()) {
        opts.set_custom_scalars_module(syn::parse_str(s).map_err(|e| e.to_string())?);
    }
    if let Some(a) = o.get("extern_enums").and_then(|v| v.as_array()) {
        opts.set_extern_enums(
            a.iter()
                .filter_map(|v| v.as_str().map(|s| s.to_string()))
                .collect(),
        );
    }
    if let Some(b) = o.get("fragments_other_variant").and_then(|v| v.as_bool()) {
        opts.set_fragments_other_variant(b);
    }
    if let Some(b) = o.get("skip_serializing_none").and_then(|v| v.as_bool()) {
        opts.set_skip_serializing_none(b);
    }
    if let Some(s) = o.get("serde_path").and_then(|v| v.as_str()) {
        opts.set_serde_path(syn::parse_str(s).map_err(|e| e.to_string())?);
    }
    if let Some(s) = o.get("query_file").and_then(|v| v.as_str()) {
        opts.set_query_file(PathBuf::from(s));
    }
    Ok(opts)
}

/// Run one generation job; never panics.
pub fn run_job(job: &Value) -> Value {
    let id = job.get("id").cloned().unwrap_or(Value::Null);
    let schema_path = PathBuf::from(job.get("schema_path").and_then(|v| v.as_str()).unwrap_or(""));
    let empty = json!({});
    let options = job.get("options").unwrap_or(&empty);
    let want_tokens = job.get("want_tokens").and_then(|v| v.as_bool()).unwrap_or(true);
    let want_inv = job.get("want_inventory").and_then(|v| v.as_bool()).unwrap_or(false);

    let query_text = job.get("query").and_then(|v| v.as_str()).map(|s| s.to_string());
    let query_path = job.get("query_path").and_then(|v| v.as_str()).map(PathBuf::from);

    let result = std::panic::catch_unwind(|| {
        let opts = match build_options(options) {
            Ok(o) => o,
            Err(e) => return Err(format!("harness: bad options: {}", e)),
        };
        let r = if let Some(q) = &query_text {
            generate_module_token_stream_from_string(q, &schema_path, opts)
        } else if let Some(p) = &query_path {
            generate_module_token_stream(p.clone(), &schema_path, opts)
        } else {
            return Err("harness: job has neither query nor query_path".to_string());
        };
        r.map(|ts| ts.to_string()).map_err(|e| e.to_string())
    });

    match result {
        Ok(Ok(tokens)) => {
            let mut out = json!({"id": id, "status": "ok"});
            if want_inv {
                match inventory::inventory_of(&tokens) {
                    Ok(inv) => out["inventory"] = inv,
                    Err(e) => out["parse_error"] = json!(e),
                }
            }
            if want_tokens {
                out["tokens"] = json!(tokens);
            }
            out
        }
        Ok(Err(msg)) => json!({"id": id, "status": "err", "msg": msg}),
        Err(_) => json!({"id": id, "status": "panic", "msg": take_panic()}),
    }
}

pub fn main_gen() {
    quiet_panics();
    for job in read_jobs() {
        emit(&run_job(&job));
    }
}
