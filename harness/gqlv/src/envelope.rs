//! `gqlv envelope`: Response<T> / Error of the runtime crate on spec-shaped bodies (C15).
//! `gqlv idcoerce`: the two ID helper functions of graphql_client::serde_with (C16a).

use crate::{emit, quiet_panics, read_jobs, take_panic};
use graphql_client::{Error as GqlError, Response};
use serde_json::{json, Map, Value};

type R = Response<Map<String, Value>>;

/// The same JSON value written with every string character as a \uXXXX escape (an equivalent
/// JSON text: parsers must copy such strings instead of borrowing them from the input).
fn escaped_text(v: &Value, out: &mut String) {
    fn esc(s: &str, out: &mut String) {
        out.push('"');
        for u in s.encode_utf16() {
            out.push_str(&format!("\\u{:04x}", u));
        }
        out.push('"');
    }
    match v {
        Value::String(s) => esc(s, out),
        Value::Array(a) => {
            out.push('[');
            for (i, x) in a.iter().enumerate() {
                if i > 0 {
                    out.push(',');
                }
                escaped_text(x, out);
            }
            out.push(']');
        }
        Value::Object(m) => {
            out.push('{');
            for (i, (k, x)) in m.iter().enumerate() {
                if i > 0 {
                    out.push(',');
                }
                esc(k, out);
                out.push(':');
                escaped_text(x, out);
            }
            out.push('}');
        }
        other => out.push_str(&other.to_string()),
    }
}

fn envelope_one(body: &Value) -> Value {
    let parsed: Result<R, _> = serde_json::from_value(body.clone());
    let text = body.to_string();
    let parsed_str: Result<R, _> = serde_json::from_str(&text);
    // two more equivalent routes: a reader (no borrowed strings) and a fully escaped text
    let parsed_reader: Result<R, _> = serde_json::from_reader(text.as_bytes());
    let mut etext = String::new();
    escaped_text(body, &mut etext);
    let parsed_escaped: Result<R, _> = serde_json::from_str(&etext);
    if let (Ok(_), Ok(_)) = (&parsed, &parsed_str) {
        if let Err(e) = &parsed_reader {
            return json!({"parse": "err", "msg": e.to_string(), "route": "from_reader"});
        }
        if let Err(e) = &parsed_escaped {
            return json!({"parse": "err", "msg": e.to_string(), "route": "from_str(escaped text)"});
        }
    }
    match (parsed, parsed_str) {
        (Ok(r), Ok(rs)) => {
            let same_routes = r == rs
                && matches!(&parsed_reader, Ok(x) if *x == r)
                && matches!(&parsed_escaped, Ok(x) if *x == r);
            let reser = serde_json::to_value(&r).unwrap_or(Value::Null);
            let back: Result<R, _> = serde_json::from_value(reser.clone());
            let roundtrip = matches!(&back, Ok(b) if *b == r);
            let back_str: Result<R, _> = serde_json::from_str(&serde_json::to_string(&r).unwrap_or_default());
            let roundtrip_str = matches!(&back_str, Ok(b) if *b == r);
            let mut displays = Vec::new();
            let mut err_roundtrip = true;
            if let Some(errs) = &r.errors {
                for e in errs {
                    displays.push(format!("{}", e));
                    let ev = serde_json::to_value(e).unwrap_or(Value::Null);
                    let eb: Result<GqlError, _> = serde_json::from_value(ev);
                    err_roundtrip &= matches!(&eb, Ok(b) if b == e);
                    let cl = e.clone();
                    err_roundtrip &= cl == *e;
                }
            }
            json!({"parse": "ok", "same_routes": same_routes, "reser": reser, "roundtrip": roundtrip,
                   "roundtrip_str": roundtrip_str, "err_roundtrip": err_roundtrip, "displays": displays,
                   "data_is_some": r.data.is_some(), "errors_is_some": r.errors.is_some(),
                   "extensions_is_some": r.extensions.is_some()})
        }
        (Err(e), _) => json!({"parse": "err", "msg": e.to_string(), "route": "from_value"}),
        (_, Err(e)) => json!({"parse": "err", "msg": e.to_string(), "route": "from_str"}),
    }
}

pub fn main_envelope() {
    quiet_panics();
    for job in read_jobs() {
        let id = job.get("id").cloned().unwrap_or(Value::Null);
        let body = job.get("body").cloned().unwrap_or(Value::Null);
        let r = std::panic::catch_unwind(|| envelope_one(&body));
        match r {
            Ok(mut v) => {
                v["id"] = id;
                emit(&v)
            }
            Err(_) => emit(&json!({"id": id, "parse": "panic", "msg": take_panic()})),
        }
    }
}

#[derive(serde::Deserialize)]
struct IdHolder {
    #[serde(deserialize_with = "graphql_client::serde_with::deserialize_id")]
    v: String,
}

#[derive(serde::Deserialize)]
struct OptIdHolder {
    #[serde(deserialize_with = "graphql_client::serde_with::deserialize_option_id")]
    v: Option<String>,
}

#[derive(serde::Deserialize)]
struct OptIdHolderDefault {
    #[serde(default, deserialize_with = "graphql_client::serde_with::deserialize_option_id")]
    v: Option<String>,
}

fn show<T>(r: Result<T, serde_json::Error>, f: impl Fn(T) -> Value) -> Value {
    match r {
        Ok(v) => json!({"ok": f(v)}),
        Err(e) => json!({"err": e.to_string()}),
    }
}

/// job: {"id", "value": <json> | absent when "absent": true}
pub fn main_idcoerce() {
    quiet_panics();
    for job in read_jobs() {
        let id = job.get("id").cloned().unwrap_or(Value::Null);
        let absent = job.get("absent").and_then(|v| v.as_bool()).unwrap_or(false);
        let holder = if absent {
            json!({})
        } else {
            json!({"v": job.get("value").cloned().unwrap_or(Value::Null)})
        };
        let text = holder.to_string();
        let r = std::panic::catch_unwind(|| {
            json!({
                "id_value": show(serde_json::from_value::<IdHolder>(holder.clone()), |h| json!(h.v)),
                "id_str": show(serde_json::from_str::<IdHolder>(&text), |h| json!(h.v)),
                "opt_value": show(serde_json::from_value::<OptIdHolder>(holder.clone()), |h| json!(h.v)),
                "opt_str": show(serde_json::from_str::<OptIdHolder>(&text), |h| json!(h.v)),
                "optdefault_value": show(serde_json::from_value::<OptIdHolderDefault>(holder.clone()), |h| json!(h.v)),
            })
        });
        match r {
            Ok(mut v) => {
                v["id"] = id;
                emit(&v)
            }
            Err(_) => emit(&json!({"id": id, "panic": take_panic()})),
        }
    }
}
