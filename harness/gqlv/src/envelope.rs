pub fn main_envelope() { eprintln!("not built yet"); std::process::exit(2); }
pub fn main_idcoerce() { eprintln!("not built yet"); std::process::exit(2); }
