//! gqlv – conformance driver: runs cases emitted by the TLA+ models against the
//! real graphql-client code in /repo's working tree. All sub-commands read
//! ndjson jobs on stdin and write one ndjson observation per job on stdout.

mod attrs;
mod envelope;
mod gen;
mod inventory;
mod threads;

use std::io::{BufRead, Write};

pub fn read_jobs() -> Vec<serde_json::Value> {
    let stdin = std::io::stdin();
    let mut out = Vec::new();
    for line in stdin.lock().lines() {
        let line = line.expect("stdin");
        if line.trim().is_empty() {
            continue;
        }
        out.push(serde_json::from_str(&line).expect("job is not JSON"));
    }
    out
}

pub fn emit(v: &serde_json::Value) {
    let stdout = std::io::stdout();
    let mut lock = stdout.lock();
    serde_json::to_writer(&mut lock, v).unwrap();
    lock.write_all(b"\n").unwrap();
}

/// Install a panic hook that records the message instead of printing it.
pub fn quiet_panics() {
    std::panic::set_hook(Box::new(|info| {
        let msg = if let Some(s) = info.payload().downcast_ref::<&str>() {
            (*s).to_string()
        } else if let Some(s) = info.payload().downcast_ref::<String>() {
            s.clone()
        } else {
            "<non-string panic payload>".to_string()
        };
        LAST_PANIC.with(|c| *c.borrow_mut() = Some(msg));
    }));
}

thread_local! {
    pub static LAST_PANIC: std::cell::RefCell<Option<String>> = const { std::cell::RefCell::new(None) };
}

pub fn take_panic() -> String {
    LAST_PANIC
        .with(|c| c.borrow_mut().take())
        .unwrap_or_else(|| "<no message>".into())
}

fn main() {
    let args: Vec<String> = std::env::args().collect();
    let cmd = args.get(1).map(|s| s.as_str()).unwrap_or("");
    match cmd {
        "gen" => gen::main_gen(),
        "inventory" => inventory::main_inventory(),
        "normtokens" => inventory::main_normtokens(),
        "attrs" => attrs::main_attrs(),
        "envelope" => envelope::main_envelope(),
        "idcoerce" => envelope::main_idcoerce(),
        "threads" => threads::main_threads(),
        _ => {
            eprintln!("usage: gqlv gen|inventory|attrs|envelope|idcoerce|threads  < jobs.ndjson");
            std::process::exit(2);
        }
    }
}
