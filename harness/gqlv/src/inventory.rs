//! Token-level observation of generated code: a JSON inventory of the items in
//! the emitted module(s), read with `syn`. Only API-stable handles are meant to
//! be navigated by the checks (ResponseData, Variables, QUERY, OPERATION_NAME,
//! serde rename / field idents); everything else is reported as found.

use crate::{emit, read_jobs};
use quote::ToTokens;
use serde_json::{json, Map, Value};

fn ty_str(t: &impl ToTokens) -> String {
    t.to_token_stream()
        .to_string()
        .chars()
        .filter(|c| !c.is_whitespace())
        .collect()
}

fn lit_to_json(e: &syn::Expr) -> Value {
    match e {
        syn::Expr::Lit(l) => match &l.lit {
            syn::Lit::Str(s) => json!(s.value()),
            syn::Lit::Bool(b) => json!(b.value),
            syn::Lit::Int(i) => json!(i.to_string()),
            other => json!(other.to_token_stream().to_string()),
        },
        other => json!(other.to_token_stream().to_string()),
    }
}

/// Attributes → { "derive": [..], "serde": {k: v|true}, "deprecated": null|true|"note", "allow": [...], "other": [..] }
fn attrs_json(attrs: &[syn::Attribute]) -> Value {
    let mut derives: Vec<String> = Vec::new();
    let mut serde = Map::new();
    let mut deprecated = Value::Null;
    let mut other: Vec<String> = Vec::new();
    for a in attrs {
        let name = a
            .path()
            .segments
            .last()
            .map(|s| s.ident.to_string())
            .unwrap_or_default();
        match name.as_str() {
            "derive" => {
                let _ = a.parse_nested_meta(|m| {
                    derives.push(ty_str(&m.path));
                    Ok(())
                });
            }
            "serde" => {
                let _ = a.parse_nested_meta(|m| {
                    let key = ty_str(&m.path);
                    if m.input.peek(syn::Token![=]) {
                        let v: syn::Expr = m.value()?.parse()?;
                        serde.insert(key, lit_to_json(&v));
                    } else {
                        serde.insert(key, json!(true));
                    }
                    Ok(())
                });
            }
            "deprecated" => {
                deprecated = json!(true);
                if let syn::Meta::List(_) = &a.meta {
                    let _ = a.parse_nested_meta(|m| {
                        if m.path.is_ident("note") {
                            let v: syn::Expr = m.value()?.parse()?;
                            deprecated = lit_to_json(&v);
                        }
                        Ok(())
                    });
                }
            }
            _ => other.push(a.to_token_stream().to_string()),
        }
    }
    json!({"derive": derives, "serde": serde, "deprecated": deprecated, "other": other})
}

fn fields_json(fields: &syn::Fields) -> Value {
    let mut out = Vec::new();
    for (i, f) in fields.iter().enumerate() {
        let name = f
            .ident
            .as_ref()
            .map(|i| i.to_string())
            .unwrap_or_else(|| i.to_string());
        let a = attrs_json(&f.attrs);
        let wire = a["serde"]
            .get("rename")
            .and_then(|v| v.as_str())
            .map(|s| s.to_string())
            .unwrap_or_else(|| name.trim_start_matches("r#").to_string());
        out.push(json!({
            "name": name,
            "wire": wire,
            "ty": ty_str(&f.ty),
            "vis": ty_str(&f.vis),
            "attrs": a,
        }));
    }
    Value::Array(out)
}

fn items_json(items: &[syn::Item]) -> Value {
    let mut consts = Map::new();
    let mut types = Map::new();
    let mut structs = Map::new();
    let mut enums = Map::new();
    let mut mods = Map::new();
    let mut impls = Vec::new();
    let mut uses = Vec::new();
    let mut order: Vec<Value> = Vec::new();
    let mut dup: Vec<String> = Vec::new();
    let mut seen = std::collections::BTreeSet::new();
    let mut note = |name: &str, dup: &mut Vec<String>| {
        if !seen.insert(name.to_string()) {
            dup.push(name.to_string());
        }
    };
    for it in items {
        match it {
            syn::Item::Const(c) => {
                let n = c.ident.to_string();
                note(&n, &mut dup);
                order.push(json!(["const", n]));
                consts.insert(
                    n,
                    json!({"ty": ty_str(&c.ty), "value": lit_to_json(&c.expr), "vis": ty_str(&c.vis),
                           "expr": c.expr.to_token_stream().to_string()}),
                );
            }
            syn::Item::Type(t) => {
                let n = t.ident.to_string();
                note(&n, &mut dup);
                order.push(json!(["type", n]));
                types.insert(n, json!({"ty": ty_str(&t.ty), "vis": ty_str(&t.vis)}));
            }
            syn::Item::Struct(s) => {
                let n = s.ident.to_string();
                note(&n, &mut dup);
                order.push(json!(["struct", n]));
                structs.insert(
                    n,
                    json!({"attrs": attrs_json(&s.attrs), "fields": fields_json(&s.fields),
                           "unit": matches!(s.fields, syn::Fields::Unit), "vis": ty_str(&s.vis)}),
                );
            }
            syn::Item::Enum(e) => {
                let n = e.ident.to_string();
                note(&n, &mut dup);
                order.push(json!(["enum", n]));
                let variants: Vec<Value> = e
                    .variants
                    .iter()
                    .map(|v| {
                        let a = attrs_json(&v.attrs);
                        let name = v.ident.to_string();
                        let wire = a["serde"]
                            .get("rename")
                            .and_then(|x| x.as_str())
                            .map(|s| s.to_string())
                            .unwrap_or_else(|| name.clone());
                        json!({
                            "name": name,
                            "wire": wire,
                            "attrs": a,
                            "fields": fields_json(&v.fields),
                        })
                    })
                    .collect();
                enums.insert(
                    n,
                    json!({"attrs": attrs_json(&e.attrs), "variants": variants, "vis": ty_str(&e.vis)}),
                );
            }
            syn::Item::Mod(m) => {
                let n = m.ident.to_string();
                note(&n, &mut dup);
                order.push(json!(["mod", n]));
                let inner = m
                    .content
                    .as_ref()
                    .map(|(_, items)| items_json(items))
                    .unwrap_or(Value::Null);
                mods.insert(n, json!({"vis": ty_str(&m.vis), "items": inner, "attrs": attrs_json(&m.attrs)}));
            }
            syn::Item::Impl(i) => {
                let tr = i.trait_.as_ref().map(|(_, p, _)| ty_str(p));
                let mut assoc = Map::new();
                let mut fns = Map::new();
                for ii in &i.items {
                    match ii {
                        syn::ImplItem::Type(t) => {
                            assoc.insert(t.ident.to_string(), json!(ty_str(&t.ty)));
                        }
                        syn::ImplItem::Fn(f) => {
                            let ret = match &f.sig.output {
                                syn::ReturnType::Default => "()".to_string(),
                                syn::ReturnType::Type(_, t) => ty_str(t),
                            };
                            fns.insert(
                                f.sig.ident.to_string(),
                                json!({"ret": ret, "body": f.block.to_token_stream().to_string()}),
                            );
                        }
                        _ => {}
                    }
                }
                order.push(json!(["impl", ty_str(&i.self_ty)]));
                impls.push(json!({"trait": tr, "self": ty_str(&i.self_ty), "types": assoc, "fns": fns}));
            }
            syn::Item::Use(u) => {
                uses.push(u.to_token_stream().to_string());
            }
            other => {
                order.push(json!(["other", other.to_token_stream().to_string()]));
            }
        }
    }
    json!({
        "consts": consts, "types": types, "structs": structs, "enums": enums,
        "mods": mods, "impls": impls, "uses": uses, "order": order, "duplicates": dup,
    })
}

pub fn inventory_of(tokens: &str) -> Result<Value, String> {
    let file: syn::File = syn::parse_str(tokens).map_err(|e| format!("syn: {}", e))?;
    Ok(items_json(&file.items))
}

/// `gqlv inventory`: {"id","tokens"} → {"id","inventory"|"parse_error"}
pub fn main_inventory() {
    for job in read_jobs() {
        let id = job.get("id").cloned().unwrap_or(Value::Null);
        let tokens = job.get("tokens").and_then(|v| v.as_str()).unwrap_or("");
        match inventory_of(tokens) {
            Ok(inv) => emit(&json!({"id": id, "inventory": inv})),
            Err(e) => emit(&json!({"id": id, "parse_error": e})),
        }
    }
}

/// `gqlv normtokens`: {"id","tokens"} -> {"id","norm"}: the token stream re-printed canonically.
pub fn main_normtokens() {
    for job in read_jobs() {
        let id = job.get("id").cloned().unwrap_or(Value::Null);
        let tokens = job.get("tokens").and_then(|v| v.as_str()).unwrap_or("");
        match tokens.parse::<proc_macro2::TokenStream>() {
            Ok(ts) => emit(&json!({"id": id, "norm": ts.to_string()})),
            Err(e) => emit(&json!({"id": id, "error": e.to_string()})),
        }
    }
}
