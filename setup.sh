#!/bin/sh
# Build the framework from files on disk only (offline).
set -e
cd "$(dirname "$0")"
export CARGO_NET_OFFLINE=true
mkdir -p work evidence replays
(cd harness && cargo build --offline -q)
# syntax-check every specification
for f in spec/*.tla; do
  (cd spec && tla-sany "$(basename "$f")" >/dev/null 2>&1) || { echo "SANY failed on $f" >&2; exit 1; }
done
echo "setup ok"
