SPECIFICATION Spec
CONSTANT OpenOutputEarly = FALSE
INVARIANTS SuccessDeliversJson FailureLeavesFile RefusedArgsSendNothing ExitReflectsOutcome RequestIsSelectedDocument Emit
PROPERTY Terminates
CHECK_DEADLOCK FALSE
