SPECIFICATION Spec
CONSTANT MaxValues = 2
INVARIANTS RoundTrip Separates OpenWorld Emit
CHECK_DEADLOCK FALSE
