------------------------------ MODULE Trace_C18 ------------------------------
(***************************************************************************)
(* Trace validation for C18: the OptionsBuilt events recorded by the       *)
(* hooked derive macro while a real consumer crate was compiled are        *)
(* checked against the reference meaning of the attribute that was         *)
(* written (DeriveAttr!RefOptions).  One line of the trace per derive.     *)
(***************************************************************************)
EXTENDS DeriveAttr, Json, IOUtils, TLCExt

Rec == ndJsonDeserialize(IOEnv.TRACE)
CrateDir == IOEnv.CRATE_DIR

VARIABLE l
Init == l = 1

\* does event e agree with the options written in its attribute?
Matches(e) ==
  LET ref == RefOptions(e.entries)
      o == e.obs
  IN  /\ o.manifest_dir = CrateDir
      \* paths are resolved against the consumer crate's manifest directory
      /\ o.query_path = CrateDir \o "/" \o ref.query_path
      /\ o.schema_path = CrateDir \o "/" \o ref.schema_path
      /\ o.query_file = o.query_path
      /\ o.response_derives_set = ref.response_derives.found
      /\ o.response_derives = ref.response_derives.value
      /\ o.variables_derives_set = ref.variables_derives.found
      /\ o.variables_derives = ref.variables_derives.value
      /\ o.custom_scalars_module_set = ref.custom_scalars_module.found
      /\ o.custom_scalars_module = ref.custom_scalars_module.value
      /\ o.deprecated = ref.deprecated
      /\ o.normalization = ref.normalization
      /\ o.fragments_other_variant = ref.fragments_other_variant
      /\ o.skip_serializing_none = ref.skip_serializing_none
      /\ o.extern_enums = ref.extern_enums
      \* what the derive adds by itself
      /\ o.operation_name = e.ident
      /\ o.struct_ident = e.ident
      /\ o.mode = "Derive"
      /\ o.module_visibility = e.vis       \* the visibility written on the struct
      /\ o.serde_path = "graphql_client::_private::serde"

Next == /\ l <= Len(Rec)
        /\ Matches(Rec[l])
        /\ l' = l + 1

Spec == Init /\ [][Next]_l

Accepted ==
  IF TLCGet("stats").diameter - 1 = Len(Rec) THEN TRUE
  ELSE /\ PrintT(<<"UNMATCHED", TLCGet("stats").diameter>>)
       /\ FALSE
=============================================================================
