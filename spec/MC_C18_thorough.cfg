SPECIFICATION Spec
CONSTANT MaxOptional = 3
INVARIANTS ScannerCorrect Emit
PROPERTY Terminates
CHECK_DEADLOCK FALSE
