------------------------------ MODULE Envelope ------------------------------
(***************************************************************************)
(* The response-body grammar of the GraphQL specification (section 7) and  *)
(* what a client envelope must do with it (property C15):                  *)
(*   - every spec-shaped body parses; unknown members are ignored;         *)
(*   - every present member is preserved (re-serialising gives the body    *)
(*     back, without the unknown members, null == absent);                 *)
(*   - Display of an error is `path:line:column: message`, path joined by  *)
(*     "/" ("<query>" when absent), first location (0:0 when absent).      *)
(***************************************************************************)
EXTENDS Naturals, Sequences, JsonVal, TLC

\* optional member states
Absent == "absent"

LocObj(l, c) == Obj(<<KV("line", Int(ToString(l))), KV("column", Int(ToString(c)))>>)

\* locations member: state -> [present, value, first (<<line, col>> or <<>>)]
LocationsChoices ==
  { [st |-> "absent", v |-> Null, first |-> <<>>],
    [st |-> "null",   v |-> Null, first |-> <<>>],
    [st |-> "empty",  v |-> EmptyList, first |-> <<>>],
    [st |-> "one",    v |-> Lst(<<LocObj(3, 13)>>), first |-> <<3, 13>>],
    [st |-> "two",    v |-> Lst(<<LocObj(7, 1), LocObj(2147483647, 0)>>), first |-> <<7, 1>>] }

\* path member: elements are names (strings) or list indices (integers)
PathChoices ==
  { [st |-> "absent", v |-> Null, txt |-> "<query>"],
    [st |-> "null",   v |-> Null, txt |-> "<query>"],
    [st |-> "empty",  v |-> EmptyList, txt |-> ""],
    [st |-> "names",  v |-> Lst(<<Str("hero"), Str("friends")>>), txt |-> "hero/friends"],
    [st |-> "mixed",  v |-> Lst(<<Str("hero"), Str("friends"), Int("1"), Str("name")>>),
                      txt |-> "hero/friends/1/name"],
    [st |-> "index",  v |-> Lst(<<Str("list"), Int("0"), Int("2147483647")>>), txt |-> "list/0/2147483647"],
    [st |-> "uni",    v |-> Lst(<<Str("$nonascii"), Int("2")>>), txt |-> "$nonascii/2"],
    \* the same key / index more than once (nested lists, recursive structures); a single element
    [st |-> "repeat", v |-> Lst(<<Str("rows"), Int("0"), Str("rows"), Int("0")>>), txt |-> "rows/0/rows/0"],
    [st |-> "same",   v |-> Lst(<<Int("1"), Int("1"), Str("n"), Str("n")>>), txt |-> "1/1/n/n"],
    [st |-> "single", v |-> Lst(<<Int("0")>>), txt |-> "0"] }

NestedJson == Obj(<<KV("code", Str("E_FAIL")), KV("n", Int("42")), KV("f", Sc("float", "1.5")),
                    KV("arr", Lst(<<Int("1"), Null, Str("x"), Obj(<<KV("deep", Sc("bool", "true"))>>)>>)),
                    KV("nothing", Null)>>)

ExtChoices ==
  { [st |-> "absent", v |-> Null], [st |-> "null", v |-> Null],
    [st |-> "empty", v |-> EmptyObj], [st |-> "nested", v |-> NestedJson] }

Messages == {"boom", "", "$nonascii", "with: colon/slash"}

Member(k, c) == IF c.st = "absent" THEN <<>> ELSE <<KV(k, c.v)>>
Unknown(b)   == IF b THEN <<KV("unknownMember", Obj(<<KV("x", Int("1"))>>))>> ELSE <<>>

\* one entry of `errors`: the body value, the value expected back, and the Display text
ErrorEntry(msg, loc, path, ext, unk) ==
  [ v |-> Obj(<<KV("message", Str(msg))>> \o Member("locations", loc) \o Member("path", path)
              \o Member("extensions", ext) \o Unknown(unk)),
    e |-> Obj(<<KV("message", Str(msg))>> \o Member("locations", loc) \o Member("path", path)
              \o Member("extensions", ext)),
    display |-> path.txt \o ":" \o
                (IF loc.first = <<>> THEN "0:0"
                 ELSE ToString(loc.first[1]) \o ":" \o ToString(loc.first[2])) \o ": " \o msg ]

DataChoices ==
  { [st |-> "absent", v |-> Null], [st |-> "null", v |-> Null],
    [st |-> "object", v |-> Obj(<<KV("hero", Obj(<<KV("name", Str("R2")), KV("n", Int("3"))>>)),
                                  KV("list", Lst(<<Int("1"), Int("2")>>))>>)] }
=============================================================================
