SPECIFICATION Spec
CONSTANTS
  MaxFrags = 2
  MaxNodes = 7
  FieldPool = {}
  Extended = {"abstractCond"}
INVARIANTS EmitExt
CHECK_DEADLOCK FALSE
