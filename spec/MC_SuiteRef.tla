------------------------------ MODULE MC_SuiteRef ------------------------------
(***************************************************************************)
(* Reference options (DeriveAttr!RefOptions) of attributes read from source *)
(* files: one line per derive site in IOEnv.TRACE; printed as REF records   *)
(* for the driver, which calls the library with them and compares tokens.   *)
(***************************************************************************)
EXTENDS DeriveAttr, Json, IOUtils, TLC

Rec == ndJsonDeserialize(IOEnv.TRACE)
ASSUME \A i \in 1..Len(Rec) : PrintT(<<"REF", ToJson([n |-> Rec[i].n, options |-> RefOptions(Rec[i].entries)])>>)

VARIABLE x
Init == x = 0
Next == UNCHANGED x
Spec == Init /\ [][Next]_x
=============================================================================
