SPECIFICATION Spec
CONSTANTS
  NThreads = 3
  MaxPerThread = 1
  MaxTotal = 3
  PoisonRecovery = TRUE
  Alphabet = {"base","copy","other","qmiss","sbad","json","rel1","rel2"}
  Threads <- MCThreads
  PlanSet <- MCPlans
  CallDef <- MCCalls
  Files <- MCFiles
INVARIANTS MutualExclusion CacheFaithful Purity Emit
PROPERTY Termination
CHECK_DEADLOCK FALSE
