------------------------------- MODULE MC_C17 -------------------------------
(***************************************************************************)
(* C17: every directed graph on N nodes x the walk discipline.  The stack  *)
(* bound is checked by TLC; each graph is also emitted (once, from its     *)
(* initial state) so that the driver can build adversarial schema / query  *)
(* texts from it and run the real generator in an isolated process.        *)
(***************************************************************************)
EXTENDS Walks, Json, TLC

Case == [n |-> N, edges |-> edges, cyclic |-> HasReachableCycle(edges)]
Emit == (stack = <<Frame(1)>> /\ result = "running") => PrintT(<<"GRAPH", ToJson(Case)>>)

\* the state constraint only keeps the unbounded configuration finite for TLC
Bound == Len(stack) <= N + 2
=============================================================================
