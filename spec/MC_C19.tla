------------------------------- MODULE MC_C19 -------------------------------
EXTENDS CliGenerate, Json

Case == [flags |-> flags, options |-> LibraryOptions(flags), qname |-> qname, placement |-> placement,
         formatting |-> formatting, program |-> program, exit |-> exit, written |-> written]
Emit == Finished => PrintT(<<"CASE", ToJson(Case)>>)
=============================================================================
