------------------------------- MODULE Edits -------------------------------
(***************************************************************************)
(* The catalogue of single invalidating edits of property C06.  Each edit  *)
(* maps a valid document to a document that breaks exactly one rule of     *)
(* Gql!Valid at one position.  The lemma                                   *)
(*     \A e \in Edits(d) : Valid(d) => ~Valid(e.doc)                       *)
(* is checked by TLC on every generated program, so an edit that does not  *)
(* really invalidate is never used as a test of the implementation.        *)
(***************************************************************************)
EXTENDS Gql

RECURSIVE Descendants(_, _)
Descendants(doc, i) ==
  LET kids == ChildSet(doc, doc.nodes[i].d, i)
  IN  kids \cup UNION {Descendants(doc, k) : k \in kids}

\* keep exactly the nodes in `keep` (closed under parents), renumbering parent links
KeepNodes(doc, keep) ==
  LET ks == SetToSortSeq(keep, <)
      NewIndex(i) == CHOOSE k \in 1..Len(ks) : ks[k] = i
  IN  [doc EXCEPT !.nodes =
         [k \in 1..Len(ks) |->
            LET n == doc.nodes[ks[k]] IN [n EXCEPT !.p = IF n.p = 0 THEN 0 ELSE NewIndex(n.p)]]]

\* An edit is a compact description; Apply builds the edited document (the driver applies the
\* same description to the rendered case, so what TLC judged invalid is what is generated from).
\*   nset  : [i, f, v]  set member f ("name" | "on") of node i to v      (i = 0: none)
\*   dset  : [d, name, kind, on]  replace these members of definition d  (d = 0: none)
\*   app   : nodes appended at the end
\*   keep  : node indices kept (renumbered), used when keepAll = FALSE
\*   dapp  : definitions appended at the end (their nodes come in `app`)
NoSet  == [i |-> 0, f |-> "", v |-> ""]
NoDSet == [d |-> 0, name |-> "", kind |-> "", on |-> ""]
Ed(rule, at, variant, nset, dset, app, keepAll, keep) ==
  [rule |-> rule, at |-> at, variant |-> variant, nset |-> nset, dset |-> dset, app |-> app,
   keepAll |-> keepAll, keep |-> keep, dapp |-> <<>>]

Apply(doc, e) ==
  LET d1 == IF e.keepAll THEN doc ELSE KeepNodes(doc, SeqRange(e.keep))
      d2 == IF e.nset.i = 0 THEN d1
            ELSE IF e.nset.f = "name" THEN [d1 EXCEPT !.nodes[e.nset.i].name = e.nset.v]
            ELSE IF e.nset.f = "alias" THEN [d1 EXCEPT !.nodes[e.nset.i].alias = e.nset.v]
            ELSE [d1 EXCEPT !.nodes[e.nset.i].on = e.nset.v]
      d3 == IF e.dset.d = 0 THEN d2
            ELSE [d2 EXCEPT !.defs[e.dset.d].name = e.dset.name, !.defs[e.dset.d].kind = e.dset.kind,
                            !.defs[e.dset.d].on = e.dset.on]
  IN  [d3 EXCEPT !.nodes = @ \o e.app, !.defs = @ \o e.dapp]

Simple(rule, at, variant) == Ed(rule, at, variant, NoSet, NoDSet, <<>>, TRUE, <<>>)
SetNode(rule, i, f, v)    == Ed(rule, i, "full", [i |-> i, f |-> f, v |-> v], NoDSet, <<>>, TRUE, <<>>)
SetDef(rule, doc, d, name, kind, on) ==
  Ed(rule, d, "full", NoSet, [d |-> d, name |-> name, kind |-> kind, on |-> on], <<>>, TRUE, <<>>)
AppendEd(rule, at, ns)    == Ed(rule, at, "full", NoSet, NoDSet, ns, TRUE, <<>>)
KeepEd(rule, at, keep)    == Ed(rule, at, "full", NoSet, NoDSet, <<>>, FALSE, SetToSortSeq(keep, <))

FieldNodes(doc) == {i \in NodeIds(doc) : doc.nodes[i].k = "field"}

\* selection-set positions <<d, p, type>>: definition roots and composite field / inline nodes
Scopes(S, doc, roots) ==
  {<<d, 0, DefType(doc, roots, d)>> : d \in 1..Len(doc.defs)} \cup
  {<<doc.nodes[i].d, i, TargetType(S, doc, roots, i)>> :
      i \in {x \in NodeIds(doc) : doc.nodes[x].k \in {"field", "inline"}
                                  /\ IsComposite(S, TargetType(S, doc, roots, x))}}

CompositeTypes(S) == {t \in DOMAIN S : S[t].kind \in {"OBJECT", "INTERFACE", "UNION"}}

Edits(S, doc, roots) ==
  LET n1 == Len(doc.nodes) + 1 IN
  \* 1. a field the parent type does not have
  {SetNode("unknownField", i, "name", "nope") : i \in FieldNodes(doc)}
  \cup
  \* 1b. ... also when the response key says `__typename` (an alias does not make a field a meta field)
  {AppendEd("unknownFieldAliasedTypename", sc[2], <<FieldNode(sc[1], sc[2], "nope", "__typename")>>) :
      sc \in {y \in Scopes(S, doc, roots) : KindOf(S, y[3]) \in {"OBJECT", "INTERFACE"}}}
  \cup
  \* 2. a sub-selection on a scalar / enum field
  {AppendEd("subselectionOnLeaf", i, <<FieldNode(doc.nodes[i].d, i, "x", "")>>) :
      i \in {x \in FieldNodes(doc) : IsLeaf(S, TargetType(S, doc, roots, x))}}
  \cup
  \* 2b. ... or on the meta field `__typename`
  {AppendEd("subselectionOnTypename", i, <<FieldNode(doc.nodes[i].d, i, "x", "")>>) :
      i \in {x \in NodeIds(doc) : doc.nodes[x].k = "typename"}}
  \cup
  \* 2c. `__typename` under another response key: the generated enums are tagged `__typename`, the
  \*     server would answer with the alias (refused by the generator, D30)
  {SetNode("aliasedTypename", i, "alias", "kind") :
      i \in {x \in NodeIds(doc) : doc.nodes[x].k = "typename"}}
  \cup
  \* 3. no sub-selection on an object / interface / union field
  {KeepEd("noSubselectionOnComposite", i, NodeIds(doc) \ Descendants(doc, i)) :
      i \in {x \in FieldNodes(doc) : IsComposite(S, TargetType(S, doc, roots, x))}}
  \cup
  \* 4. spread of a fragment that is not defined
  {AppendEd("undefinedFragment", sc[2], <<SpreadNode(sc[1], sc[2], "Undefined")>>) :
      sc \in Scopes(S, doc, roots)}
  \cup
  \* 5. a type condition that names no schema type
  {SetNode("unknownTypeCondition", i, "on", "NoSuchType") :
      i \in {x \in NodeIds(doc) : doc.nodes[x].k = "inline"}}
  \cup
  {SetDef("unknownTypeConditionOnFragment", doc, d, doc.defs[d].name, doc.defs[d].kind, "NoSuchType") :
      d \in {x \in 1..Len(doc.defs) : doc.defs[x].k = "frag"}}
  \cup
  {AppendEd("unknownTypeConditionAdded", sc[2],
            <<InlineNode(sc[1], sc[2], "NoSuchType"), TypenameNode(sc[1], n1)>>) :
      sc \in Scopes(S, doc, roots)}
  \cup
  \* 6. a type condition that can never apply to the parent type
  {AppendEd("impossibleTypeCondition:" \o sx[1][3] \o ":" \o sx[2], sx[1][2],
            <<InlineNode(sx[1][1], sx[1][2], sx[2]), TypenameNode(sx[1][1], n1)>>) :
      sx \in {y \in Scopes(S, doc, roots) \X CompositeTypes(S) :
                 y[2] # y[1][3] /\ ~Overlaps(S, y[1][3], y[2])}}
  \cup
  {AppendEd("impossibleFragmentSpread:" \o sf[1][3] \o ":" \o doc.defs[sf[2]].on, sf[1][2],
            <<SpreadNode(sf[1][1], sf[1][2], doc.defs[sf[2]].name)>>) :
      sf \in {y \in Scopes(S, doc, roots) \X {f \in 1..Len(doc.defs) : doc.defs[f].k = "frag"} :
                 doc.defs[y[2]].on # y[1][3] /\ ~Overlaps(S, y[1][3], doc.defs[y[2]].on)}}
  \cup
  \* 7. __typename removed from an interface / union selection (nothing re-supplies it)
  {KeepEd("typenameRemoved", i, NodeIds(doc) \ {i}) :
      i \in {x \in NodeIds(doc) :
               /\ doc.nodes[x].k = "typename"
               /\ IsAbstract(S, ScopeType(S, doc, roots, x))
               /\ ChildSet(doc, doc.nodes[x].d, doc.nodes[x].p) # {x}
               /\ ~Valid(S, KeepNodes(doc, NodeIds(doc) \ {x}), roots)}}
  \cup
  \* 7b. an interface / union field selected without __typename, added at every scope that has one
  {AppendEd("abstractSelectionWithoutTypename:" \o sa[2].base, sa[1][2],
            IF KindOf(S, sa[2].base) = "INTERFACE"
            THEN <<FieldNode(sa[1][1], sa[1][2], sa[2].name, "zz"),
                   FieldNode(sa[1][1], n1, S[sa[2].base].fields[1].name, "")>>
            ELSE <<FieldNode(sa[1][1], sa[1][2], sa[2].name, "zz"),
                   InlineNode(sa[1][1], n1, S[sa[2].base].members[1]),
                   FieldNode(sa[1][1], n1 + 1, "name", "")>>) :
      sa \in {y \in Scopes(S, doc, roots) \X UNION {SeqRange(S[t].fields) : t \in DOMAIN S} :
                 /\ KindOf(S, y[1][3]) \in {"OBJECT", "INTERFACE"}
                 /\ y[2] \in SeqRange(S[y[1][3]].fields)
                 /\ IsAbstract(S, y[2].base)
                 /\ ~(doc.defs[y[1][1]].k = "op" /\ doc.defs[y[1][1]].kind = "subscription" /\ y[1][2] = 0)}}
  \cup
  \* 8. a second root field in a subscription
  {AppendEd("subscriptionSecondRoot", d, <<FieldNode(d, 0, "tick", "t2")>>) :
      d \in {x \in 1..Len(doc.defs) : doc.defs[x].k = "op" /\ doc.defs[x].kind = "subscription"}}
  \cup
  \* 8b. ... also when the single root item is an inline fragment on the subscription type that holds two fields
  {LET keep == {i \in NodeIds(doc) : doc.nodes[i].d # d}
       k == Cardinality(keep) + 1
   IN  Ed("subscriptionRootsViaInline", d, "full", NoSet, NoDSet,
          <<InlineNode(d, 0, DefType(doc, roots, d)), FieldNode(d, k, "tick", ""), FieldNode(d, k, "tick", "t2")>>,
          FALSE, SetToSortSeq(keep, <)) :
      d \in {x \in 1..Len(doc.defs) : doc.defs[x].k = "op" /\ doc.defs[x].kind = "subscription"}}
  \cup
  \* 8c. ... and when the second root field of a LATER subscription hides behind a fragment that an EARLIER
  \*     subscription of the same document has already been counted through (every operation is counted on
  \*     its own: a visited set shared by the operations would let `Second` pass)
  {LET nd == Len(doc.defs)
       on == DefType(doc, roots, d)
   IN  [Ed("subscriptionRootsAfterAnotherSubscription", d, "full", NoSet, NoDSet,
           <<FieldNode(nd + 1, 0, "tick", ""),
             SpreadNode(nd + 2, 0, "SubF"), FieldNode(nd + 2, 0, "tick", "t2"),
             SpreadNode(nd + 3, 0, "SubF"),
             SpreadNode(nd + 4, 0, "SubBoth")>>, TRUE, <<>>)
        EXCEPT !.dapp = <<FragDef("SubF", on), FragDef("SubBoth", on),
                          OpDef("subscription", "First"), OpDef("subscription", "Second")>>] :
      d \in {x \in 1..Len(doc.defs) : doc.defs[x].k = "op" /\ doc.defs[x].kind = "subscription"}}
  \cup
  \* 9. anonymous operations: `query { .. }` and the bare `{ .. }` shorthand
  {SetDef("anonymousOperation", doc, d, "", doc.defs[d].kind, "") :
      d \in {x \in 1..Len(doc.defs) : doc.defs[x].k = "op"}}
  \cup
  {SetDef("bareSelectionSet", doc, d, "", "bare", "") :
      d \in {x \in 1..Len(doc.defs) : doc.defs[x].k = "op" /\ doc.defs[x].kind = "query"}}
  \cup
  \* 10. an operation kind whose root type the schema lacks
  {Simple("noRootType", d, IF doc.defs[d].kind = "mutation" THEN "noMutation" ELSE "noSubscription") :
      d \in {x \in 1..Len(doc.defs) : doc.defs[x].k = "op" /\ doc.defs[x].kind \in {"mutation", "subscription"}}}

EditsInvalidate(S, doc) ==
  \A e \in Edits(S, doc, Roots("full")) : ~Valid(S, Apply(doc, e), Roots(e.variant))
=============================================================================
