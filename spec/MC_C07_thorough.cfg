SPECIFICATION Spec
CONSTANTS MaxDepth = 3
 Pairwise = TRUE
INVARIANTS PairsComparable Emit
CHECK_DEADLOCK FALSE
