SPECIFICATION TraceSpec
CONSTANTS
  PoisonRecovery = TRUE
  Threads <- SuiteThreads
  PlanSet <- SuitePlans
  CallDef <- SuiteCalls
  Files <- SuiteFiles
INVARIANTS MutualExclusion CacheFaithful Purity
POSTCONDITION Accepted
CHECK_DEADLOCK FALSE
