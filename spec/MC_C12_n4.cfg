SPECIFICATION Spec
CONSTANT N = 4
INVARIANTS DecisionSound DecisionExact Emit
CHECK_DEADLOCK FALSE
