SPECIFICATION Spec
CONSTANTS DoubleMembers = TRUE
 N = 4
INVARIANTS DecisionSound DecisionExact Emit
CHECK_DEADLOCK FALSE
