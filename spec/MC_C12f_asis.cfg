SPECIFICATION Spec
CONSTANTS N = 2
 Transitive = FALSE
INVARIANTS FiniteSize
CHECK_DEADLOCK FALSE
