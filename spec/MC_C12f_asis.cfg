SPECIFICATION Spec
CONSTANTS N = 2
 WithInline = TRUE
 Transitive = FALSE
INVARIANTS FiniteSize
CHECK_DEADLOCK FALSE
