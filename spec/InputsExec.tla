----------------------------- MODULE InputsExec -----------------------------
(***************************************************************************)
(* Variables on the wire (property C04).  For an operation with declared   *)
(* variables and an assignment of values, the request's `variables` member *)
(* is a JSON object whose keys are exactly the declared names, whose       *)
(* values are valid for the declared input types (schema field names,      *)
(* schema enum value names, exactly one key for @oneOf objects, no null at *)
(* non-null positions).  With skip_serializing_none the nullable members   *)
(* (of Variables and of input objects) that are None are omitted,          *)
(* otherwise they are explicit nulls.                                      *)
(***************************************************************************)
EXTENDS Naturals, Sequences, FiniteSets, TypeExpr, JsonVal, TLC

CONSTANTS Fuel, FlipFuel

IFd(n, q, b) == [name |-> n, q |-> q, base |-> b]

InputTypes ==
  [ Filter |-> [oneOf |-> FALSE,
                fields |-> << IFd("color", <<>>, "Color"), IFd("minAge", <<>>, "Int"),
                              IFd("tags", <<"L", "R">>, "String"), IFd("and", <<"L", "R">>, "Filter"),
                              IFd("not", <<>>, "Filter"), IFd("by", <<>>, "By"), IFd("type", <<"R">>, "Int"),
                              IFd("camelCase", <<"R", "L">>, "Date"), IFd("snake_case", <<>>, "Boolean") >>],
    By     |-> [oneOf |-> TRUE,
                fields |-> << IFd("id", <<>>, "ID"), IFd("name", <<>>, "String"), IFd("filter", <<>>, "Filter"),
                              IFd("many", <<"L", "R">>, "Int"), IFd("match", <<>>, "Color"),
                              IFd("legacy_id", <<>>, "ID"), IFd("userID", <<>>, "Int"), IFd("URL", <<>>, "String"),
                              \* nested lists with nullable inner lists (every wrapper of a @oneOf member survives)
                              IFd("grid", <<"L", "L">>, "Int"), IFd("cube", <<"L", "L", "R", "L", "R">>, "Int") >>] ]

\* schema default values (`type: Int! = 25`): a default lets the SERVER fill in an omitted member; it changes
\* neither the member's type nor what the client may send, so a non-null member stays non-null
FieldDefaults == << [type |-> "Filter", field |-> "type", text |-> "25"],
                    [type |-> "Filter", field |-> "minAge", text |-> "18"],
                    [type |-> "Filter", field |-> "snake_case", text |-> "true"] >>

EnumValues == [Color |-> <<"RED", "GREEN", "blue", "type">>]
Bases == {"Int", "Float", "String", "Boolean", "ID", "Date", "Color", "Filter", "By"}
IsInputObject(b) == b \in DOMAIN InputTypes

ScalarDefault(b) ==
  CASE b = "Int" -> Sc("int", "1") [] b = "Float" -> Sc("float", "1.5") [] b = "String" -> Sc("str", "hello")
    [] b = "Boolean" -> Sc("bool", "true") [] b = "ID" -> Sc("str", "abc") [] b = "Date" -> Sc("str", "2020-02-02")
    [] OTHER -> Sc("str", EnumValues[b][1])
ScalarAlts(b) ==
  CASE b = "Int" -> {Sc("int", "0"), Sc("int", "-2147483648")}
    [] b = "Float" -> {Sc("float", "-0.5"), Sc("float", "1e308")}
    [] b = "String" -> {Sc("str", ""), Sc("str", "$nonascii")}
    [] b = "Boolean" -> {Sc("bool", "false")}
    [] b = "ID" -> {Sc("str", "007")}
    [] b = "Date" -> {Sc("str", "")}
    [] OTHER -> {Sc("str", EnumValues[b][i]) : i \in 2..Len(EnumValues[b])}

Alt(a, x, val) == [a |-> a, x |-> x, val |-> val]
NoAlt == Alt("default", "", Null)
Pick(ch, path) == IF path \in DOMAIN ch THEN ch[path] ELSE NoAlt
P(path, alt) == [path |-> path, alt |-> alt]

\* result of evaluating one position:
\*   full : the assignment as plain JSON with explicit nulls (what the caller means)
\*   wire : what must be sent without skip_serializing_none
\*   skip : what must be sent with it (omitted members are dropped by the enclosing object)
\*   none : the value is None at a nullable member position (so the enclosing object may omit it)
Res(full, wire, skip, isNone, pos) == [full |-> full, wire |-> wire, skip |-> skip, none |-> isNone, pos |-> pos]

RECURSIVE EvalIn(_, _, _, _, _), EvalObj(_, _, _, _), FoldFields(_, _, _, _, _, _, _), FoldItems(_, _, _, _, _, _, _, _)

Acc0 == [full |-> <<>>, wire |-> <<>>, skip |-> <<>>, pos |-> {}]

\* value of type (q, base) at `path`
EvalIn(q, base, path, ch, fuel) ==
  LET a == Pick(ch, path)
      nullable == OuterNullable(q)
      inner == IF nullable THEN q ELSE Tail(q)
      isList == inner # <<>>
      vary == fuel >= FlipFuel
      nullPos == IF vary /\ nullable THEN {P(path, Alt("null", "", Null))} ELSE {}
                 \* an INVALID assignment: null at a non-null position (must not be expressible, see Vectors.valid)
                 \cup IF vary /\ ~nullable THEN {P(path, Alt("badnull", "", Null))} ELSE {}
  IN
  IF a.a = "badnull" THEN Res(Null, Null, Null, FALSE, {})
  ELSE IF nullable /\ (a.a = "null" \/ (fuel = 0 /\ a.a = "default" /\ (isList \/ IsInputObject(base))))
  THEN Res(Null, Null, Null, TRUE, {})
  ELSE IF isList THEN
     LET n == IF a.a = "len" THEN (CASE a.x = "0" -> 0 [] a.x = "1" -> 1 [] OTHER -> 3)
              ELSE IF fuel = 0 THEN 0 ELSE IF fuel = Fuel THEN 2 ELSE 1
         acc == FoldItems(Tail(inner), base, path, ch, fuel, 1, n, Acc0)
         lenPos == IF vary THEN {P(path, Alt("len", x, Null)) : x \in {"0", "1", "3"}} ELSE {}
     IN  Res(Lst(acc.full), Lst(acc.wire), Lst(acc.skip), FALSE, nullPos \cup lenPos \cup acc.pos)
  ELSE IF IsInputObject(base) THEN
     LET r == EvalObj(base, path, ch, IF fuel = 0 THEN 0 ELSE fuel - 1)
     IN  Res(r.full, r.wire, r.skip, FALSE, nullPos \cup r.pos)
  ELSE
     LET v == IF a.a = "scalar" THEN a.val ELSE ScalarDefault(base)
         alts == IF vary THEN {P(path, Alt("scalar", "", x)) : x \in ScalarAlts(base)} ELSE {}
     IN  Res(v, v, v, FALSE, nullPos \cup alts)

FoldItems(q, base, path, ch, fuel, j, n, acc) ==
  IF j > n THEN acc
  ELSE LET r == EvalIn(q, base, path \o "/" \o ToString(j - 1), ch, fuel)
       IN  FoldItems(q, base, path, ch, fuel, j + 1, n,
                     [full |-> Append(acc.full, r.full), wire |-> Append(acc.wire, r.wire),
                      skip |-> Append(acc.skip, r.skip), pos |-> acc.pos \cup r.pos])

\* members of an ordinary input object: all of them; of an @oneOf object: exactly the chosen one
FoldFields(fields, path, ch, fuel, k, only, acc) ==
  IF k > Len(fields) THEN acc
  ELSE IF only # 0 /\ only # k THEN FoldFields(fields, path, ch, fuel, k + 1, only, acc)
  ELSE LET f == fields[k]
           \* the chosen member of an @oneOf object is given a value (it is not null)
           r == EvalIn(IF only # 0 THEN <<"R">> \o f.q ELSE f.q, f.base, path \o "/" \o f.name, ch, fuel)
       IN  FoldFields(fields, path, ch, fuel, k + 1, only,
                      [full |-> Append(acc.full, KV(f.name, r.full)),
                       wire |-> Append(acc.wire, KV(f.name, r.wire)),
                       skip |-> IF r.none THEN acc.skip ELSE Append(acc.skip, KV(f.name, r.skip)),
                       pos |-> acc.pos \cup r.pos])

EvalObj(base, path, ch, fuel) ==
  LET t == InputTypes[base]
      a == Pick(ch, path \o "#member")
      \* @oneOf: member 1 by default, or the chosen one; when fuel is exhausted a scalar member
      scalarMember == CHOOSE k \in 1..Len(t.fields) : ~IsInputObject(t.fields[k].base) /\ ~HasList(t.fields[k].q)
      only == IF ~t.oneOf THEN 0
              ELSE IF a.a = "member" THEN (CHOOSE k \in 1..Len(t.fields) : t.fields[k].name = a.x)
              ELSE IF fuel = 0 THEN scalarMember ELSE 1
      acc == FoldFields(t.fields, path, ch, fuel, 1, only, Acc0)
      memberPos == IF t.oneOf /\ fuel >= FlipFuel - 1
                   THEN {P(path \o "#member", Alt("member", t.fields[k].name, Null)) : k \in 2..Len(t.fields)}
                   ELSE {}
  IN  [full |-> Obj(acc.full), wire |-> Obj(acc.wire), skip |-> Obj(acc.skip), pos |-> acc.pos \cup memberPos]

\* ---- an operation's variables --------------------------------------------
\* decls: sequence of [name, q, base]
RECURSIVE FoldVars(_, _, _, _)
FoldVars(decls, ch, k, acc) ==
  IF k > Len(decls) THEN acc
  ELSE LET d == decls[k]
           r == EvalIn(d.q, d.base, "/" \o d.name, ch, Fuel)
       IN  FoldVars(decls, ch, k + 1,
                    [full |-> Append(acc.full, KV(d.name, r.full)),
                     wire |-> Append(acc.wire, KV(d.name, r.wire)),
                     skip |-> IF r.none THEN acc.skip ELSE Append(acc.skip, KV(d.name, r.skip)),
                     pos |-> acc.pos \cup r.pos])

EvalVars(decls, ch) ==
  LET acc == FoldVars(decls, ch, 1, Acc0)
  IN  [full |-> Obj(acc.full), wire |-> Obj(acc.wire), skip |-> Obj(acc.skip), pos |-> acc.pos]

Vectors(decls) ==
  LET base == EvalVars(decls, <<>>)
  IN  {[path |-> "", alt |-> NoAlt, valid |-> TRUE, full |-> base.full, wire |-> base.wire, skip |-> base.skip]} \cup
      {LET r == EvalVars(decls, p.path :> p.alt)
       IN  [path |-> p.path, alt |-> p.alt, valid |-> p.alt.a # "badnull",
            full |-> r.full, wire |-> r.wire, skip |-> r.skip] : p \in base.pos} \cup
      \* everything that can be None is None at once
      {LET allNull == [x \in {p.path : p \in {y \in base.pos : y.alt.a = "null"}} |-> Alt("null", "", Null)]
           r == EvalVars(decls, allNull)
       IN  [path |-> "*", alt |-> Alt("null", "all", Null), valid |-> TRUE, full |-> r.full, wire |-> r.wire, skip |-> r.skip]}
=============================================================================
