---------------------------- MODULE Trace_Pipeline ----------------------------
(***************************************************************************)
(* Trace validation of the generation pipeline: stage events recorded by   *)
(* the hooked library (CallBegin, Resolved, Selected(names), Rendered(op), *)
(* CallEnd(outcome)) for calls whose abstract inputs are known, checked to  *)
(* be behaviours of GraphqlClient.tla.  Several calls are concatenated;     *)
(* each starts with a Begin record carrying the inputs.                     *)
(***************************************************************************)
EXTENDS GraphqlClient, Json, IOUtils, TLCExt

Rec == ndJsonDeserialize(IOEnv.TRACE)
VARIABLE l
E == Rec[l]

TInit == /\ l = 1
         /\ ops = Rec[1].ops /\ requested = Rec[1].requested /\ normalization = Rec[1].normalization
         /\ mode = Rec[1].mode /\ loadable = Rec[1].loadable /\ valid = Rec[1].valid
         /\ GCInit

\* a Begin record (re)starts the pipeline with new inputs; the previous call must be finished
TBegin == /\ E.a = "Begin"
          /\ (l = 1 \/ stage = "done")
          /\ ops' = E.ops /\ requested' = E.requested /\ normalization' = E.normalization /\ mode' = E.mode
          /\ loadable' = E.loadable /\ valid' = E.valid
          /\ stage' = "start" /\ selected' = <<>> /\ rendered' = <<>> /\ outcome' = "none"

\* loading has no event of its own here (the cache events belong to Trace_C08): it is composed
\* with the first stage event that follows
TResolved == /\ E.a = "Resolved"
             /\ stage = "start" /\ loadable /\ valid
             /\ stage' = "resolved" /\ UNCHANGED <<inputs, selected, rendered, outcome>>

TSelected == /\ E.a = "Selected"
             /\ SelectOps /\ stage' = "selected"
             /\ selected' = E.names

TRendered == /\ E.a = "Rendered"
             /\ RenderNext
             /\ rendered'[Len(rendered')] = E.name

\* the end of the call: every stage that had to run has run, and the outcome is the specified one
TEnd == /\ E.a = "End"
        /\ \/ /\ stage = "selected" /\ Return /\ outcome' = E.outcome
           \/ /\ stage = "resolved" /\ SelectOps /\ stage' = "done" /\ outcome' = E.outcome     \* not found
           \/ /\ stage = "start" /\ ~loadable /\ E.outcome = "panic"
              /\ stage' = "done" /\ outcome' = "panic" /\ UNCHANGED <<inputs, selected, rendered>>
           \/ /\ stage = "start" /\ loadable /\ ~valid /\ E.outcome = "err"
              /\ stage' = "done" /\ outcome' = "err" /\ UNCHANGED <<inputs, selected, rendered>>

TNext == /\ l <= Len(Rec)
         /\ (TBegin \/ TResolved \/ TSelected \/ TRendered \/ TEnd)
         /\ l' = l + 1
TSpec == TInit /\ [][TNext]_<<gcvars, l>>

Accepted ==
  IF TLCGet("stats").diameter - 1 = Len(Rec) THEN TRUE
  ELSE /\ PrintT(<<"UNMATCHED", TLCGet("stats").diameter>>)
       /\ FALSE
=============================================================================
