------------------------------- MODULE MC_C09 -------------------------------
(* C09: option sets of the wire-neutral lattice, each compared with Default. *)
EXTENDS Options, Json, TLC

CONSTANT MaxDistance    \* option sets within this many changes of the default (7 = the whole lattice)

VARIABLE o
Init == /\ o \in [normalization : WireNeutral.normalization, response_derives : WireNeutral.response_derives,
                   variables_derives : WireNeutral.variables_derives, module_visibility : WireNeutral.module_visibility,
                   custom_scalars_module : WireNeutral.custom_scalars_module, extern_enums : WireNeutral.extern_enums,
                   serde_path : WireNeutral.serde_path]
        /\ WellTyped(o)
        /\ Distance(o, Default) <= MaxDistance
Next == UNCHANGED o
Spec == Init /\ [][Next]_o

DefaultIsAnOptionSet == WellTyped(Default)
Emit == PrintT(<<"OPTS", ToJson([options |-> o, distance |-> Distance(o, Default)])>>)
=============================================================================
