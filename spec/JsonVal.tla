------------------------------ MODULE JsonVal ------------------------------
(***************************************************************************)
(* Abstract JSON values (all records of one shape, so that TLC can compare *)
(* any two values inside sets):                                            *)
(*   [t |-> "null"|"int"|"float"|"str"|"bool", s |-> text]    scalars      *)
(*   [t |-> "obj",  o |-> << [k |-> key, v |-> value] ... >>] objects      *)
(*   [t |-> "list", l |-> << value ... >>]                     lists       *)
(*   [t |-> "opt",  s |-> text]   expected-pattern only: key may be absent *)
(* 64-bit numbers and awkward text are atoms expanded by the driver.       *)
(***************************************************************************)
Sc(t, s)  == [t |-> t, s |-> s, o |-> <<>>, l |-> <<>>]
Null      == Sc("null", "")
Str(s)    == Sc("str", s)
Int(s)    == Sc("int", s)
Obj(ps)   == [t |-> "obj", s |-> "", o |-> ps, l |-> <<>>]
Lst(vs)   == [t |-> "list", s |-> "", o |-> <<>>, l |-> vs]
KV(k, v)  == [k |-> k, v |-> v]
EmptyObj  == Obj(<<>>)
EmptyList == Lst(<<>>)
=============================================================================
