----------------------------- MODULE MC_Vectors -----------------------------
(***************************************************************************)
(* Oracle evaluation for a chosen sample of programs: the documents are    *)
(* read back from the file named by the environment variable DOCS (one     *)
(* JSON document per line, as emitted by MC_Progs), and TLC evaluates the  *)
(* execution-shape oracle of Exec.tla on each - one state per program.     *)
(***************************************************************************)
EXTENDS Exec, Json, IOUtils

Docs == ndJsonDeserialize(IOEnv.DOCS)

OpIdx(d) == CHOOSE k \in 1..Len(d.defs) : d.defs[k].k = "op"

VARIABLE i
Init == i = 1
Next == i <= Len(Docs) /\ i' = i + 1
Spec == Init /\ [][Next]_i

Emit == i <= Len(Docs) =>
          PrintT(<<"PROG", ToJson([doc |-> Docs[i],
                                  vectors |-> Vectors(Docs[i], Roots("full"), OpIdx(Docs[i]))])>>)
=============================================================================
