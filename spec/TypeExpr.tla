----------------------------- MODULE TypeExpr -----------------------------
(***************************************************************************)
(* GraphQL type expressions and the single rule that maps them to Rust.    *)
(*                                                                         *)
(* A type expression is a named type wrapped in list `[ ]` and non-null    *)
(* `!` modifiers.  As in the implementation (StoredFieldType.qualifiers)   *)
(* it is a sequence of qualifiers from OUTER to INNER over {"L","R"}:      *)
(*     [[Int!]]!   =  <<"R","L","L","R">> around Int                      *)
(* Well-formed: never two "R" in a row (the grammar has no `!!`).          *)
(*                                                                         *)
(* Reference rule (property C13): non-null removes one Option, a list      *)
(* becomes Vec, at every nesting level.                                    *)
(***************************************************************************)
EXTENDS Naturals, Sequences

Q == {"L", "R"}

RECURSIVE SeqsUpTo(_, _)
SeqsUpTo(S, n) == IF n = 0 THEN {<<>>}
                  ELSE LET shorter == SeqsUpTo(S, n - 1)
                       IN  shorter \cup {Append(s, x) : s \in shorter, x \in S}

ListDepth(q) == Len(SelectSeq(q, LAMBDA x : x = "L"))

WellFormed(q) == \A i \in 1..(Len(q) - 1) : ~(q[i] = "R" /\ q[i + 1] = "R")

\* All well-formed qualifier lists with at most d list levels.
TypeExprs(d) == {q \in SeqsUpTo(Q, 2 * d + 1) : WellFormed(q) /\ ListDepth(q) <= d}

(***************************************************************************)
(* The reference rule, as a pure recursive function to a Rust type string. *)
(* Nullable(q,b) renders a position that may be null, NonNull(q,b) one     *)
(* that may not.                                                           *)
(***************************************************************************)
RECURSIVE Nullable(_, _), NonNull(_, _)
Nullable(q, b) ==
    IF q = <<>> THEN "Option<" \o b \o ">"
    ELSE IF Head(q) = "R" THEN NonNull(Tail(q), b)
    ELSE "Option<Vec<" \o Nullable(Tail(q), b) \o ">>"
NonNull(q, b) ==
    IF q = <<>> THEN b
    ELSE IF Head(q) = "L" THEN "Vec<" \o Nullable(Tail(q), b) \o ">"
    ELSE "ILL-FORMED(!!)"

RustType(q, b) == Nullable(q, b)

\* Built-in scalar map of the property.
BuiltinRust == [Int |-> "i64", Float |-> "f64", String |-> "String",
                ID |-> "String", Boolean |-> "bool"]

(***************************************************************************)
(* Syntax tree of a type expression (what both schema front-ends walk):    *)
(* SDL: ListType / NonNullType / NamedType; JSON: kind LIST / NON_NULL /   *)
(* named with ofType chains.  Ast(q,b) builds it from the qualifier list.  *)
(***************************************************************************)
RECURSIVE Ast(_, _)
Ast(q, b) == IF q = <<>> THEN [k |-> "named", name |-> b]
             ELSE [k |-> (IF Head(q) = "L" THEN "list" ELSE "nonnull"),
                   of |-> Ast(Tail(q), b)]

\* GraphQL source text of the expression.
RECURSIVE Text(_, _)
Text(q, b) == IF q = <<>> THEN b
              ELSE IF Head(q) = "R" THEN Text(Tail(q), b) \o "!"
              ELSE "[" \o Text(Tail(q), b) \o "]"

\* Nullability of the outermost position; used by skip_serializing_none etc.
\* (IF, not \/ : inside Init/Next TLC explores both disjuncts instead of short-circuiting)
OuterNullable(q) == IF q = <<>> THEN TRUE ELSE Head(q) # "R"

\* a set of expressions as a sequence in a fixed order (shorter first, "L" before "R")
RECURSIVE TypeSeqOf(_)
Rank(q) == LET RECURSIVE R(_) R(s) == IF s = <<>> THEN 0 ELSE (IF Head(s) = "L" THEN 1 ELSE 2) + 3 * R(Tail(s)) IN Len(q) * 100000 + R(q)
TypeSeqOf(S) == IF S = {} THEN <<>>
                ELSE LET m == CHOOSE x \in S : \A y \in S : Rank(x) <= Rank(y)
                     IN  <<m>> \o TypeSeqOf(S \ {m})

HasList(q) == \E i \in 1..Len(q) : q[i] = "L"
=============================================================================
