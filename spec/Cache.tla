-------------------------------- MODULE Cache --------------------------------
(***************************************************************************)
(* The only state of graphql_client_codegen that outlives a call: two      *)
(* process-wide caches (path -> parsed query, path -> parsed schema), each *)
(* behind one mutex; a value is built UNDER the lock by or_insert_with.    *)
(* Property C08: the outcome of every call is a pure function of the file  *)
(* contents and the options, whatever calls ran before or run concurrently *)
(* - including calls that failed.                                          *)
(*                                                                         *)
(* One action per critical section of get_set_cached.  A loader that       *)
(* panics (missing / unparsable file) unwinds while the lock is held,      *)
(* which poisons a std::sync::Mutex.  PoisonRecovery says what `lock()`    *)
(* callers do with a poisoned mutex: FALSE = `.expect("cache is poisoned")`*)
(* panics; TRUE = the guard is recovered (the map is intact: or_insert_with*)
(* inserts nothing when the loader panics).                                *)
(***************************************************************************)
EXTENDS Naturals, Sequences, FiniteSets, TLC

CONSTANTS Threads,          \* set of thread ids (strings)
          PlanSet,          \* set of plans [Threads -> Seq(call id)]: what each thread runs, in order
          CallDef,          \* [call id -> [q |-> path, s |-> path, o |-> option id]]
          Files,            \* [path -> [status |-> "ok" | "missing" | "bad" | "ext", content |-> id]]
          PoisonRecovery    \* BOOLEAN

VARIABLES qCache, sCache,   \* [path -> content id | "none"]
          qLock, sLock,     \* holder thread or "free"
          qPoison, sPoison, \* BOOLEAN
          pc, cur, todo,    \* per thread
          qv, sv,           \* per thread: values obtained from the caches
          hist,             \* sequence of [t, call, outcome] in completion order
          plan,             \* the plan of this behaviour (constant)
          acq               \* history: threads in the order in which they took a cache lock

vars == <<qCache, sCache, qLock, sLock, qPoison, sPoison, pc, cur, todo, qv, sv, hist, plan, acq>>

Paths == DOMAIN Files

\* what the call computes when made alone in a fresh process
Pure(c) ==
  LET d == CallDef[c] IN
  IF Files[d.q].status # "ok" THEN "panic:query:" \o Files[d.q].status
  ELSE IF Files[d.s].status # "ok" THEN "panic:schema:" \o Files[d.s].status
  ELSE "ok:" \o Files[d.q].content \o "/" \o Files[d.s].content \o "/" \o d.o

Init ==
  /\ qCache = [p \in Paths |-> "none"]
  /\ sCache = [p \in Paths |-> "none"]
  /\ qLock = "free" /\ sLock = "free"
  /\ qPoison = FALSE /\ sPoison = FALSE
  /\ pc = [t \in Threads |-> "idle"]
  /\ cur = [t \in Threads |-> ""]
  /\ plan \in PlanSet
  /\ todo = plan
  /\ acq = <<>>
  /\ qv = [t \in Threads |-> ""]
  /\ sv = [t \in Threads |-> ""]
  /\ hist = <<>>

Finish(t, outcome) ==
  /\ hist' = Append(hist, [t |-> t, call |-> cur[t], outcome |-> outcome])
  /\ pc' = [pc EXCEPT ![t] = "idle"]

Begin(t) ==
  /\ pc[t] = "idle" /\ todo[t] # <<>>
  /\ cur' = [cur EXCEPT ![t] = Head(todo[t])]
  /\ todo' = [todo EXCEPT ![t] = Tail(@)]
  /\ pc' = [pc EXCEPT ![t] = "q_wait"]
  /\ UNCHANGED <<qCache, sCache, qLock, sLock, qPoison, sPoison, qv, sv, hist, plan, acq>>

\* ---- query cache -------------------------------------------------------
AcquireQ(t) ==
  /\ pc[t] = "q_wait" /\ qLock = "free"
  /\ IF qPoison /\ ~PoisonRecovery
     THEN /\ Finish(t, "panic:cache is poisoned")
          /\ UNCHANGED <<qLock>>
     ELSE /\ qLock' = t
          /\ pc' = [pc EXCEPT ![t] = "q_held"]
          /\ UNCHANGED hist
  /\ acq' = Append(acq, t)
  /\ UNCHANGED <<qCache, sCache, sLock, qPoison, sPoison, cur, todo, qv, sv, plan>>

\* hit, or load that succeeds, or load that panics under the lock
UseQ(t) ==
  /\ pc[t] = "q_held"
  /\ LET p == CallDef[cur[t]].q IN
     IF qCache[p] # "none"
     THEN /\ qv' = [qv EXCEPT ![t] = qCache[p]]
          /\ pc' = [pc EXCEPT ![t] = "q_release"]
          /\ UNCHANGED <<qCache, qLock, qPoison, hist>>
     ELSE IF Files[p].status = "ok"
     THEN /\ qCache' = [qCache EXCEPT ![p] = Files[p].content]
          /\ qv' = [qv EXCEPT ![t] = Files[p].content]
          /\ pc' = [pc EXCEPT ![t] = "q_release"]
          /\ UNCHANGED <<qLock, qPoison, hist>>
     ELSE \* the loader panics: unwinding drops the guard of a now poisoned mutex
          /\ qPoison' = TRUE
          /\ qLock' = "free"
          /\ Finish(t, "panic:query:" \o Files[p].status)
          /\ UNCHANGED <<qCache, qv>>
  /\ UNCHANGED <<sCache, sLock, sPoison, cur, todo, sv, plan, acq>>

ReleaseQ(t) ==
  /\ pc[t] = "q_release"
  /\ qLock' = "free"
  /\ pc' = [pc EXCEPT ![t] = "s_wait"]
  /\ UNCHANGED <<qCache, sCache, sLock, qPoison, sPoison, cur, todo, qv, sv, hist, plan, acq>>

\* ---- schema cache ------------------------------------------------------
AcquireS(t) ==
  /\ pc[t] = "s_wait" /\ sLock = "free"
  /\ IF sPoison /\ ~PoisonRecovery
     THEN /\ Finish(t, "panic:cache is poisoned")
          /\ UNCHANGED <<sLock>>
     ELSE /\ sLock' = t
          /\ pc' = [pc EXCEPT ![t] = "s_held"]
          /\ UNCHANGED hist
  /\ acq' = Append(acq, t)
  /\ UNCHANGED <<qCache, sCache, qLock, qPoison, sPoison, cur, todo, qv, sv, plan>>

UseS(t) ==
  /\ pc[t] = "s_held"
  /\ LET p == CallDef[cur[t]].s IN
     IF sCache[p] # "none"
     THEN /\ sv' = [sv EXCEPT ![t] = sCache[p]]
          /\ pc' = [pc EXCEPT ![t] = "s_release"]
          /\ UNCHANGED <<sCache, sLock, sPoison, hist>>
     ELSE IF Files[p].status = "ok"
     THEN /\ sCache' = [sCache EXCEPT ![p] = Files[p].content]
          /\ sv' = [sv EXCEPT ![t] = Files[p].content]
          /\ pc' = [pc EXCEPT ![t] = "s_release"]
          /\ UNCHANGED <<sLock, sPoison, hist>>
     ELSE /\ sPoison' = TRUE
          /\ sLock' = "free"
          /\ Finish(t, "panic:schema:" \o Files[p].status)
          /\ UNCHANGED <<sCache, sv>>
  /\ UNCHANGED <<qCache, qLock, qPoison, cur, todo, qv, plan, acq>>

ReleaseS(t) ==
  /\ pc[t] = "s_release"
  /\ sLock' = "free"
  /\ pc' = [pc EXCEPT ![t] = "compute"]
  /\ UNCHANGED <<qCache, sCache, qLock, qPoison, sPoison, cur, todo, qv, sv, hist, plan, acq>>

\* resolve / validate / render use only the two values and the options
Compute(t) ==
  /\ pc[t] = "compute"
  /\ Finish(t, "ok:" \o qv[t] \o "/" \o sv[t] \o "/" \o CallDef[cur[t]].o)
  /\ UNCHANGED <<qCache, sCache, qLock, sLock, qPoison, sPoison, cur, todo, qv, sv, plan, acq>>

Next == \E t \in Threads :
          Begin(t) \/ AcquireQ(t) \/ UseQ(t) \/ ReleaseQ(t) \/ AcquireS(t) \/ UseS(t) \/ ReleaseS(t) \/ Compute(t)

Spec == Init /\ [][Next]_vars /\ WF_vars(Next)

----------------------------------------------------------------------------
AllDone == \A t \in Threads : pc[t] = "idle" /\ todo[t] = <<>>

MutualExclusion == /\ qLock \in Threads \cup {"free"}
                   /\ sLock \in Threads \cup {"free"}
                   /\ \A t \in Threads : (pc[t] \in {"q_held", "q_release"}) => qLock = t
                   /\ \A t \in Threads : (pc[t] \in {"s_held", "s_release"}) => sLock = t

\* the cache only ever holds the content of the file at that path
CacheFaithful == /\ \A p \in Paths : qCache[p] # "none" => (Files[p].status = "ok" /\ qCache[p] = Files[p].content)
                 /\ \A p \in Paths : sCache[p] # "none" => (Files[p].status = "ok" /\ sCache[p] = Files[p].content)

\* C08: every outcome is the pure function of the inputs
Purity == \A i \in 1..Len(hist) : hist[i].outcome = Pure(hist[i].call)

Termination == <>AllDone
=============================================================================
