SPECIFICATION Spec
INVARIANTS RenderedIsPrefix OkMeansAllRendered ErrorMeansNothingRendered OutcomeIsFunctionOfInputs
PROPERTY Terminates
CHECK_DEADLOCK FALSE
