SPECIFICATION Spec
CONSTANT MaxErrors = 2
INVARIANTS DisplayShape Emit
CHECK_DEADLOCK FALSE
