SPECIFICATION Spec
CONSTANTS N = 2
 WithInline = TRUE
 Transitive = TRUE
INVARIANTS FiniteSize Emit
CHECK_DEADLOCK FALSE
