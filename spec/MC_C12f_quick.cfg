SPECIFICATION Spec
CONSTANTS N = 2
 Transitive = TRUE
INVARIANTS FiniteSize Emit
CHECK_DEADLOCK FALSE
