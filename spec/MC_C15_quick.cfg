SPECIFICATION Spec
CONSTANT MaxErrors = 1
INVARIANTS DisplayShape Emit
CHECK_DEADLOCK FALSE
