------------------------------- MODULE MC_C14 -------------------------------
(***************************************************************************)
(* C14: deprecation strategies.  Schema family: object T (implements Node) *)
(* with probe fields a, b, c (c is object-typed) and the interface field   *)
(* Node.a, each "none" | "bare" | a reason; a fixed operation selects them *)
(* directly, aliased, through a fragment, inside an interface variant, and *)
(* in selection sets that consist of deprecated fields only.               *)
(* Reference: for a selected field that the type IN WHOSE SCOPE it is      *)
(* selected marks deprecated: allow -> no attribute; warn (also when no    *)
(* strategy is given) -> #[deprecated] carrying the reason verbatim when   *)
(* there is one; deny -> the member is omitted.  Fields that are not       *)
(* deprecated are never marked or omitted.                                 *)
(***************************************************************************)
EXTENDS Naturals, Sequences, TLC, Json

DepStates == {"none", "bare", "use d instead", "$quotes"}
Strategies == {"allow", "warn", "deny", "unset"}

VARIABLES depA, depB, depC, depNodeA, strategy, fmt
vars == <<depA, depB, depC, depNodeA, strategy, fmt>>

Init == /\ depA \in DepStates /\ depB \in DepStates /\ depC \in DepStates /\ depNodeA \in DepStates
        /\ strategy \in Strategies
        /\ fmt \in {"sdl", "json"}
Next == UNCHANGED vars
Spec == Init /\ [][Next]_vars

\* expectation for one selected member whose schema field has deprecation state d
Expect(d) ==
  IF d = "none" THEN "plain"
  ELSE CASE strategy = "allow" -> "plain"
         [] strategy = "deny"  -> "absent"
         [] OTHER              -> IF d = "bare" THEN "deprecated" ELSE "deprecated:" \o d

\* members of the fixed operation: path from ResponseData (wire names; "on:T" = variant T) -> deprecation state
M(path, d) == [path |-> path, expect |-> Expect(d)]
Members ==
  << M(<<"t", "id">>, "none"), M(<<"t", "a">>, depA), M(<<"t", "al">>, depB), M(<<"t", "c">>, depC),
     M(<<"t", "d">>, "none"),
     M(<<"frag:F", "fa">>, depA), M(<<"frag:F", "fb">>, depB), M(<<"frag:F", "d2">>, "none"),
     M(<<"node", "id">>, "none"), M(<<"node", "a">>, depNodeA),
     M(<<"node", "on:T", "b">>, depB), M(<<"node", "on:T", "d">>, "none"), M(<<"node", "on:T", "c">>, depC),
     \* selection sets in which EVERY member may be deprecated (under deny the struct is left empty, and
     \* must still be a struct), and a deprecated object-typed field two levels down
     M(<<"only", "oa">>, depA), M(<<"only", "ob">>, depB),
     M(<<"deep", "c">>, depC), M(<<"deep", "c", "oc">>, depC), M(<<"deep", "c", "od">>, depA) >>

\* never both marked and absent; non-deprecated members are always plain
Sane == \A i \in 1..Len(Members) : Members[i].expect \in {"plain", "absent", "deprecated"} \/ strategy \in {"warn", "unset"}

Case == [depA |-> depA, depB |-> depB, depC |-> depC, depNodeA |-> depNodeA, strategy |-> strategy,
         fmt |-> fmt, members |-> Members]
Emit == PrintT(<<"CASE", ToJson(Case)>>)
=============================================================================
