SPECIFICATION Spec
CONSTANT MaxDistance = 7
INVARIANTS DefaultIsAnOptionSet Emit
CHECK_DEADLOCK FALSE
