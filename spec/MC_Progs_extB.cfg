SPECIFICATION Spec
CONSTANTS
  MaxFrags = 2
  MaxNodes = 7
  FieldPool = {}
  Extended = {"noTypename"}
INVARIANTS EmitExt
CHECK_DEADLOCK FALSE
