-------------------------------- MODULE Enums --------------------------------
(***************************************************************************)
(* GraphQL enums on the wire (property C10): a bare JSON string both ways; *)
(* each schema value name is its own variant and serialises back to        *)
(* exactly that name; ANY other string s is accepted as Other(s), and      *)
(* Ser(Deser(s)) = s for every string.                                     *)
(***************************************************************************)
EXTENDS Naturals, FiniteSets

\* value-name pool: cases, digits, underscores, Rust keywords, case twins
ValuePool == {"RED", "Red", "red", "rED", "DARK_RED", "darkRed", "dark_red", "_red", "red_", "R2D2",
              "type", "Self", "async", "Other_"}
\* strings that are never schema values in this pool
\* (including the Rust-side spellings of pool values: normalised identifiers, keyword escapes, padding)
ExtraStrings == {"", "$nonascii", "$long", "red ", " RED", "R-E-D", "Other", "other", "OTHER", "Type", "self",
                 "DarkRed", "R2d2", "REd", "Async", "type_", "Self_", "async_", "r#type", "RED$nl"}
Strings == ValuePool \cup ExtraStrings

Deser(values, s) == IF s \in values THEN [kind |-> "variant", of |-> s] ELSE [kind |-> "other", of |-> s]
Ser(v) == v.of

\* what Rust normalization (UpperCamelCase, as computed by `heck`) makes of the pool
Camel == [ RED |-> "Red", Red |-> "Red", red |-> "Red", rED |-> "REd", DARK_RED |-> "DarkRed", darkRed |-> "DarkRed",
           dark_red |-> "DarkRed", _red |-> "Red", red_ |-> "Red", R2D2 |-> "R2d2", type |-> "Type",
           Self |-> "Self", async |-> "Async", Other_ |-> "Other" ]

\* enum definitions the property speaks about: no two values coincide after the chosen
\* normalization, and no value is spelled like the catch-all variant
Admissible(values, normalization) ==
  /\ "Other" \notin values
  /\ (normalization = "rust" =>
        /\ \A a, b \in values : a # b => Camel[a] # Camel[b]
        /\ \A a \in values : Camel[a] # "Other")
=============================================================================
