-------------------------------- MODULE Enums --------------------------------
(***************************************************************************)
(* GraphQL enums on the wire (property C10): a bare JSON string both ways; *)
(* each schema value name is its own variant and serialises back to        *)
(* exactly that name; ANY other string s is accepted as Other(s), and      *)
(* Ser(Deser(s)) = s for every string.                                     *)
(***************************************************************************)
EXTENDS Naturals, FiniteSets, TLC

\* value-name pool: cases, digits, underscores, Rust keywords, case twins
ValuePool == {"RED", "Red", "red", "rED", "DARK_RED", "darkRed", "dark_red", "_red", "red_", "R2D2",
              "type", "Self", "async", "Other_",
              \* values spelled like the catch-all variant itself (defect D29: they did not compile)
              "Other", "OTHER"}
\* strings that are never schema values in this pool
\* (including the Rust-side spellings of pool values: normalised identifiers, keyword escapes, padding)
ExtraStrings == {"", "$nonascii", "$long", "red ", " RED", "R-E-D", "other", "OTHEr", "Type", "self",
                 "DarkRed", "R2d2", "REd", "Async", "type_", "Self_", "async_", "r#type", "RED$nl"}
Strings == ValuePool \cup ExtraStrings

Deser(values, s) == IF s \in values THEN [kind |-> "variant", of |-> s] ELSE [kind |-> "other", of |-> s]
Ser(v) == v.of

\* what Rust normalization (UpperCamelCase, as computed by `heck`) makes of the pool
Camel == [ RED |-> "Red", Red |-> "Red", red |-> "Red", rED |-> "REd", DARK_RED |-> "DarkRed", darkRed |-> "DarkRed",
           dark_red |-> "DarkRed", _red |-> "Red", red_ |-> "Red", R2D2 |-> "R2d2", type |-> "Type",
           Self |-> "Self", async |-> "Async", Other_ |-> "Other", Other |-> "Other" ]
         @@ ("OTHER" :> "Other")     \* (OTHER is a TLA+ keyword and cannot be a record label)

\* enum definitions the property speaks about: no two values coincide after the chosen
\* normalization.  A value spelled like the catch-all variant (`Other`, or `OTHER` / `other` under Rust
\* normalization) is admissible: the generator keeps it apart as `Other_` - so it must not sit next to a
\* value that is itself spelled `Other_`.
Admissible(values, normalization) ==
  /\ ~({"Other", "Other_"} \subseteq values)
  /\ (normalization = "rust" =>
        \A a, b \in values : a # b => Camel[a] # Camel[b])
=============================================================================
