------------------------------- MODULE MC_C04d -------------------------------
EXTENDS Defaults, Json, TLC
VARIABLES base, nonnull, lit
Init == base \in Bases /\ nonnull \in BOOLEAN /\ lit \in Literals(base)
Next == UNCHANGED <<base, nonnull, lit>>
Spec == Init /\ [][Next]_<<base, nonnull, lit>>
Emit == PrintT(<<"DEFAULT", ToJson([base |-> base, nonnull |-> nonnull, text |-> lit.text, expect |-> lit.value])>>)
=============================================================================
