------------------------------- MODULE MC_C12f -------------------------------
(***************************************************************************)
(* C12, recursive named fragments.  Nodes are fragments 1..N on an object  *)
(* type; Fi may spread Fj under a nullable object field ("field": the      *)
(* generated struct of Fi then holds Fj's struct by value inside Option),  *)
(* under a list field ("list": held inside a Vec), inside an inline         *)
(* fragment of an interface-typed field ("inline": by value inside the     *)
(* variant enum), or not at all.                                           *)
(* The generator boxes a spread iff the SPREAD FRAGMENT "is recursive".    *)
(*   Transitive = FALSE: recursive = the fragment's own selection contains *)
(*                       a spread of itself (the pinned implementation)    *)
(*   Transitive = TRUE : recursive = the fragment reaches itself through   *)
(*                       spreads                                           *)
(* Finite size = the by-value graph (field edges that are not boxed) is    *)
(* acyclic.                                                                *)
(***************************************************************************)
EXTENDS Naturals, FiniteSets, Json, TLC

CONSTANTS N, Transitive, WithInline

Nodes == 1..N
\* "inline": Fi spreads Fj inside an inline fragment of a nullable interface-typed field
\*   n: node { __typename ... on Person { ...Fj } }   -- by value through the variant enum
Kinds == {"none", "field", "list"} \cup (IF WithInline THEN {"inline"} ELSE {})

VARIABLE g
Init == g \in [Nodes \X Nodes -> Kinds]
Next == UNCHANGED g
Spec == Init /\ [][Next]_g

Spreads(i, j) == g[<<i, j>>] # "none"

RECURSIVE Reach(_)
Reach(S) == LET nxt == S \cup {j \in Nodes : \E i \in S : Spreads(i, j)} IN IF nxt = S THEN S ELSE Reach(nxt)

Recursive(x) == IF Transitive THEN x \in Reach({j \in Nodes : Spreads(x, j)}) ELSE Spreads(x, x)

Boxed(i, j) == Spreads(i, j) /\ Recursive(j)
ByValue(i, j) == g[<<i, j>>] \in {"field", "inline"} /\ ~Boxed(i, j)

RECURSIVE ReachBV(_)
ReachBV(S) == LET nxt == S \cup {j \in Nodes : \E i \in S : ByValue(i, j)} IN IF nxt = S THEN S ELSE ReachBV(nxt)

FiniteSize == \A x \in Nodes : x \notin ReachBV({j \in Nodes : ByValue(x, j)})

Case == [n |-> N, edges |-> {[from |-> e[1], to |-> e[2], kind |-> g[e]] : e \in {x \in Nodes \X Nodes : g[x] # "none"}},
         needsIndirection |-> {x \in Nodes : x \in Reach({j \in Nodes : Spreads(x, j)})}]
Emit == PrintT(<<"FGRAPH", ToJson(Case)>>)
=============================================================================
