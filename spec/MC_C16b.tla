------------------------------ MODULE MC_C16b ------------------------------
(***************************************************************************)
(* C16 (b): every ID type expression up to MaxDepth x payload variations.  *)
(* Levels of an expression: level 0 is the whole value, level i the        *)
(* elements of the i-th list.  A variation nulls one level (conforming iff *)
(* that level is nullable), replaces the leaves (string / integer /        *)
(* rejected kinds), gives a scalar where a list is required, or omits the  *)
(* key.  Expected: strings verbatim, integers as decimal strings, null or  *)
(* absence -> None at nullable levels, everything else rejected.           *)
(***************************************************************************)
EXTENDS TypeExpr, IdCoercion, Json, TLC

CONSTANT MaxDepth

VARIABLES tq, var     \* the expression and the variation
vars == <<tq, var>>

None == 99

Variation(kind, level, leaf) == [kind |-> kind, level |-> level, leaf |-> leaf]

GoodLeaves == {Str("abc"), Str(""), Str("007"), Int("7"), Int("0"), Int("-1"),
               Int("9223372036854775807"), Int("-9223372036854775808")}
BadLeaves  == {Sc("float", "1.5"), Sc("bool", "true"), EmptyObj}

Variations(q) ==
  {Variation("leaf", None, l) : l \in GoodLeaves} \cup
  {Variation("mixed", None, Str("abc"))} \cup
  {Variation("null", L, Str("abc")) : L \in 0..ListDepth(q)} \cup
  {Variation("badleaf", None, l) : l \in BadLeaves} \cup
  {Variation("scalarForList", L, Str("abc")) : L \in 0..(ListDepth(q) - 1)} \cup
  {Variation("absent", None, Str("abc"))}

Init == /\ tq \in TypeExprs(MaxDepth)
        /\ var \in Variations(tq)
Next == UNCHANGED vars
Spec == Init /\ [][Next]_vars

\* nullability of level L
RECURSIVE NullableAt(_, _)
NullableAt(q, L) ==
  LET nullable == OuterNullable(q)
      inner == IF nullable THEN q ELSE Tail(q)
  IN  IF L = 0 THEN nullable ELSE NullableAt(Tail(inner), L - 1)

Canon(v) == IF v.t = "int" THEN Str(v.s) ELSE v

\* value of expression q with variation v; cur = current level; which = "v" payload / "e" expected
RECURSIVE Val(_, _, _, _, _)
Val(q, v, cur, which, second) ==
  LET nullable == OuterNullable(q)
      inner == IF nullable THEN q ELSE Tail(q)
      leaf  == IF v.kind = "mixed" /\ second THEN Int("5") ELSE v.leaf
  IN  IF v.kind = "null" /\ v.level = cur /\ ~second THEN Null
      ELSE IF inner = <<>> THEN (IF which = "e" THEN Canon(leaf) ELSE leaf)
      ELSE IF v.kind = "scalarForList" /\ v.level = cur /\ ~second THEN Str("notalist")
      ELSE Lst(<<Val(Tail(inner), v, cur + 1, which, second),
                 Val(Tail(inner), v, cur + 1, which, TRUE)>>)

Verdict ==
  CASE var.kind \in {"leaf", "mixed"} -> "ok"
    [] var.kind = "null"          -> IF NullableAt(tq, var.level) THEN "ok" ELSE "reject"
    [] var.kind = "absent"        -> IF OuterNullable(tq) THEN "ok" ELSE "reject"
    [] OTHER                      -> "reject"

Case == [q |-> tq, text |-> Text(tq, "ID"), rust |-> RustType(tq, "String"),
         kind |-> var.kind, level |-> var.level, leaf |-> var.leaf,
         absent |-> var.kind = "absent",
         payload |-> Val(tq, var, 0, "v", FALSE),
         expect |-> IF var.kind = "absent" THEN Null ELSE Val(tq, var, 0, "e", FALSE),
         verdict |-> Verdict, hasList |-> HasList(tq)]

Emit == PrintT(<<"CASE", ToJson(Case)>>)
=============================================================================
