-------------------------------- MODULE Exec --------------------------------
(***************************************************************************)
(* GraphQL execution SHAPE for the abstract programs of Gql.tla: what a    *)
(* spec-compliant server can return for an operation (property C01), the   *)
(* content a lossless client must give back when re-serialising, and the   *)
(* single-point corruptions of property C03 with their expected verdicts.  *)
(*                                                                         *)
(* Abstract JSON values (all records, so TLC never compares across types): *)
(*   [t |-> "null"|"int"|"float"|"str"|"bool", s |-> text]    scalars      *)
(*   [t |-> "obj",  o |-> << [k |-> key, v |-> value] ... >>] objects      *)
(*   [t |-> "list", l |-> << value ... >>]                     lists       *)
(*   [t |-> "opt",  s |-> text]   expected-pattern only: key may be absent *)
(* 64-bit numbers and awkward text are atoms expanded by the driver.       *)
(***************************************************************************)
EXTENDS Gql, JsonVal, TLC

CONSTANTS Fuel,       \* objects that may be entered on one path before values are cut short
          FlipFuel    \* positions are varied only while fuel >= FlipFuel

\* an alternative for one position: kind a, parameter x, value val
Alt(a, x, val) == [a |-> a, x |-> x, val |-> val]
NoAlt == Alt("default", "", Null)
Pick(ch, path) == IF path \in DOMAIN ch THEN ch[path] ELSE NoAlt

XS == Universe

TypeSeq(ts) == SelectSeq(UniverseOrder, LAMBDA t : t \in ts)

ScalarDefault(b) ==
  CASE b = "Int"     -> Sc("int", "1")
    [] b = "Float"   -> Sc("float", "1.5")
    [] b = "String"  -> Sc("str", "hello")
    [] b = "Boolean" -> Sc("bool", "true")
    [] b = "ID"      -> Sc("str", "abc")
    [] b = "Date"    -> Sc("str", "2020-02-02")
    [] OTHER         -> Sc("str", XS[b].values[1])            \* enum

\* values a conforming server may also send at a position of this (leaf) type
ScalarAlts(b) ==
  CASE b = "Int"     -> {Sc("int", "0"), Sc("int", "-1"), Sc("int", "2147483647"), Sc("int", "-2147483648")}
    [] b = "Float"   -> {Sc("float", "0.0"), Sc("float", "-0.0"), Sc("float", "1e308"), Sc("int", "3"),
                         Sc("float", "-2.5e-7")}
    [] b = "String"  -> {Sc("str", ""), Sc("str", "$nonascii"), Sc("str", "$long"), Sc("str", "$escapes")}
    [] b = "Boolean" -> {Sc("bool", "false")}
    [] b = "ID"      -> {Sc("int", "7"), Sc("int", "0"), Sc("int", "-1"), Sc("int", "9223372036854775807"),
                         Sc("int", "-9223372036854775808"), Sc("str", ""), Sc("str", "007"),
                         Sc("str", "$nonascii")}
    [] b = "Date"    -> {Sc("str", "")}
    [] OTHER         -> {Sc("str", XS[b].values[i]) : i \in 2..Len(XS[b].values)}

\* values of the wrong kind (wrong under the GraphQL spec as well: Float<-integer and
\* ID<-integer are NOT here; custom scalars are the consumer's business)
WrongKind(b) ==
  CASE b = "Int"     -> {Sc("str", "1"), Sc("bool", "true"), Sc("float", "1.5")}
    [] b = "Float"   -> {Sc("str", "1.0"), Sc("bool", "true")}
    [] b = "String"  -> {Sc("int", "1"), Sc("bool", "true")}
    [] b = "Boolean" -> {Sc("str", "true"), Sc("int", "1")}
    [] b = "ID"      -> {Sc("float", "1.5"), Sc("bool", "true")}
    [] b = "Date"    -> {}
    [] OTHER         -> {Sc("int", "1"), Sc("bool", "true")}      \* enum


\* what a lossless client gives back for a leaf value: integer IDs become decimal strings
Canon(b, v) == IF b = "ID" /\ v.t = "int" THEN Sc("str", v.s) ELSE v

Res(v, e, pos, del) == [v |-> v, e |-> e, pos |-> pos, del |-> del]
P(path, alt, class) == [path |-> path, alt |-> alt, class |-> class]


\* Folds instead of function constructors: TLC evaluates `[j \in S |-> e]` lazily and re-evaluates
\* e on every application, which is exponential in the nesting depth here.
RECURSIVE EvalSet(_, _, _, _, _, _, _, _, _), EvalPos(_, _, _, _, _, _, _, _, _)

Acc0 == [v |-> <<>>, e |-> <<>>, pos |-> {}]

RECURSIVE FoldElems(_, _, _, _, _, _, _, _, _, _), FoldEntries(_, _, _, _, _, _, _, _, _, _, _)

FoldElems(doc, q, base, node, path, ch, fuel, j, n, acc) ==
  IF j > n THEN acc
  ELSE LET r == EvalPos(doc, q, base, node, path \o "/" \o ToString(j - 1), ch, fuel, FALSE, j)
       IN  FoldElems(doc, q, base, node, path, ch, fuel, j + 1, n,
                    [v |-> Append(acc.v, r.v), e |-> Append(acc.e, r.e), pos |-> acc.pos \cup r.pos])

FoldEntries(doc, es, idx, T, path, ch, fuel, tn, tnRequired, k, acc) ==
  IF k > Len(idx) THEN acc
  ELSE LET en == es[idx[k]]
           r  == IF en.key = "__typename"
                 THEN Res(Sc("str", tn), IF tnRequired THEN Sc("str", tn) ELSE Sc("opt", tn), {}, FALSE)
                 \* the field as declared by the type in whose scope it is written: an object may
                 \* narrow an interface field (String -> String!), the client type follows the scope
                 ELSE LET fd == FieldOf(XS, ScopeType(XS, doc, Roots("full"), en.node), doc.nodes[en.node].name)
                      IN  EvalPos(doc, fd.q, fd.base, en.node, path \o "/" \o en.key, ch, fuel, TRUE, 1)
       IN  FoldEntries(doc, es, idx, T, path, ch, fuel, tn, tnRequired, k + 1,
                   IF r.del THEN [acc EXCEPT !.pos = @ \cup r.pos]
                   ELSE [v |-> Append(acc.v, [k |-> en.key, v |-> r.v]),
                         e |-> Append(acc.e, [k |-> en.key, v |-> r.e]),
                         pos |-> acc.pos \cup r.pos])

(***************************************************************************)
(* One position: a field value or a list element of type (q, base).        *)
(* node = the field node (its children are the sub-selection), keyed =     *)
(* the position is an object member (can be deleted), rot = index used to  *)
(* rotate default run-time types over list elements.                       *)
(***************************************************************************)
EvalPos(doc, q, base, node, path, ch, fuel, keyed, rot) ==
  LET a        == Pick(ch, path)
      nullable == OuterNullable(q)
      inner    == IF nullable THEN q ELSE Tail(q)
      isList   == inner # <<>>
      vary     == fuel >= FlipFuel
      pts      == TypeSeq(PossibleTypes(XS, base))
      composite == IsComposite(XS, base)
      nullAlts == IF ~vary THEN {}
                  ELSE IF nullable THEN {P(path, Alt("null", "", Null), "conform")}
                  ELSE {P(path, Alt("c_null", "", Null), "corrupt")} \cup
                       (IF keyed THEN {P(path, Alt("c_delete", "", Null), "corrupt")} ELSE {})
  IN
  IF a.a \in {"null", "c_null"} THEN Res(Null, Null, {}, FALSE)
  ELSE IF a.a = "c_delete" THEN Res(Null, Null, {}, TRUE)
  ELSE IF a.a = "c_kind" THEN Res(a.val, a.val, {}, FALSE)
  ELSE IF isList THEN
     IF nullable /\ fuel = 0 /\ a.a = "default" THEN Res(Null, Null, {}, FALSE)
     ELSE
       LET n  == IF a.a = "len" THEN (CASE a.x = "0" -> 0 [] a.x = "1" -> 1 [] OTHER -> 3)
                 ELSE IF fuel = 0 THEN 0 ELSE IF vary THEN 2 ELSE 1
           lenAlts == IF ~vary THEN {}
                      ELSE {P(path, Alt("len", x, Null), "conform") : x \in {"0", "1", "3"}} \cup
                           {P(path, Alt("c_kind", "", Sc("str", "notalist")), "corrupt"),
                            P(path, Alt("c_kind", "", EmptyObj), "corrupt")}
           acc == FoldElems(doc, Tail(inner), base, node, path, ch, fuel, 1, n, Acc0)
       IN  Res(Lst(acc.v), Lst(acc.e), nullAlts \cup lenAlts \cup acc.pos, FALSE)
  ELSE IF ~composite THEN
     LET val == IF a.a = "scalar" THEN a.val ELSE ScalarDefault(base)
         alts == IF ~vary THEN {}
                 ELSE {P(path, Alt("scalar", "", x), "conform") : x \in ScalarAlts(base)} \cup
                      {P(path, Alt("c_kind", "", x), "corrupt") : x \in WrongKind(base)} \cup
                      (IF base = "Date" THEN {}
                       ELSE {P(path, Alt("c_kind", "", EmptyList), "corrupt"),
                             P(path, Alt("c_kind", "", EmptyObj), "corrupt")})
     IN  Res(val, Canon(base, val), nullAlts \cup alts, FALSE)
  ELSE IF Len(pts) = 0 THEN Res(Null, Null, {}, FALSE)        \* an interface nobody implements
  ELSE IF nullable /\ fuel = 0 /\ a.a = "default" THEN Res(Null, Null, {}, FALSE)
  ELSE
     LET dflt == pts[((rot - 1) % Len(pts)) + 1]
         T    == IF a.a = "type" THEN a.x ELSE dflt
         tn   == IF a.a = "c_tn_unknown" THEN "Mystery" ELSE IF a.a = "c_tn_swap" THEN a.x ELSE T
         r    == EvalSet(doc, doc.nodes[node].d, node, T, base, path, ch,
                         IF fuel = 0 THEN 0 ELSE fuel - 1, tn)
         typeAlts == IF ~vary \/ Len(pts) < 2 THEN {}
                     ELSE {P(path, Alt("type", x, Null), "conform") : x \in SeqRange(pts) \ {dflt}} \cup
                          {P(path, Alt("c_tn_unknown", "", Null), "corrupt")} \cup
                          {P(path, Alt("c_tn_swap", x, Null), "corrupt") : x \in SeqRange(pts) \ {dflt}}
         kindAlts == IF ~vary THEN {}
                     \* (object <- [] is deliberately absent: the property does not list it, and serde's
                     \*  derive accepts a sequence for a struct positionally)
                     ELSE {P(path, Alt("c_kind", "", Sc("str", "notanobject")), "corrupt"),
                           P(path, Alt("c_kind", "", Sc("int", "5")), "corrupt")}
     IN  Res(r.v, r.e, nullAlts \cup typeAlts \cup kindAlts \cup r.pos, FALSE)

(***************************************************************************)
(* The object a value of run-time type T gets from selection set (d,p).    *)
(* tn = the text written as __typename (differs from T only when the       *)
(* payload is corrupted).                                                  *)
(***************************************************************************)
EvalSet(doc, d, p, T, setType, path, ch, fuel, tn) ==
  LET es    == Collect(XS, doc, d, p, T, setType)
      first == {i \in 1..Len(es) : ~\E j \in 1..(i - 1) : es[j].key = es[i].key}
      idx   == SetToSortSeq(first, <)
      tnRequired == \E i \in 1..Len(es) : es[i].key = "__typename" /\ es[i].abs
      acc   == FoldEntries(doc, es, idx, T, path, ch, fuel, tn, tnRequired, 1, Acc0)
  IN  Res(Obj(acc.v), Obj(acc.e), acc.pos, FALSE)

\* the `data` object of operation definition d under choice function ch
EvalOp(doc, roots, d, ch) ==
  LET rt == DefType(doc, roots, d)
  IN  EvalSet(doc, d, 0, rt, rt, "", ch, Fuel, rt)

Verdict(p) ==
  CASE p.class = "conform"      -> "ok"
    [] p.alt.a = "c_tn_unknown" -> "unknown"
    [] p.alt.a = "c_tn_swap"    -> "swap"
    [] OTHER                    -> "reject"

\* baseline + every single flip, conforming and corrupting; and, because the members selected for
\* a non-default run-time type only exist after a type flip, every flip of a position that a type
\* flip newly exposes (distance 2, restricted to "type flip, then a position beneath it")
Vec(p, ctx, r) == [path |-> p.path, alt |-> p.alt, class |-> p.class, verdict |-> Verdict(p), ctx |-> ctx,
                   payload |-> r.v, expect |-> r.e]

Vectors(doc, roots, d) ==
  LET base == EvalOp(doc, roots, d, <<>>)
      basePaths == {x.path : x \in base.pos}
      typeFlips == {p \in base.pos : p.alt.a = "type"}
      Second(p) ==
        LET f == p.path :> p.alt
            r == EvalOp(doc, roots, d, f)
        IN  {Vec(q, p.path \o "=" \o p.alt.x, EvalOp(doc, roots, d, f @@ (q.path :> q.alt))) :
                q \in {x \in r.pos : x.path \notin basePaths}}
  IN  {[path |-> "", alt |-> NoAlt, class |-> "conform", verdict |-> "ok", ctx |-> "",
        payload |-> base.v, expect |-> base.e]} \cup
      {Vec(p, "", EvalOp(doc, roots, d, p.path :> p.alt)) : p \in base.pos} \cup
      UNION {Second(p) : p \in typeFlips}
=============================================================================
