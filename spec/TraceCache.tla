------------------------------ MODULE TraceCache ------------------------------
(***************************************************************************)
(* Trace validation against Cache.tla, independent of the file universe:   *)
(* event logs recorded from the real, hooked library (sequence numbers     *)
(* taken under the cache lock) are checked to be behaviours of Cache.tla,  *)
(* and the outcome of every call to be the pure function of its inputs.    *)
(* Several runs are concatenated in one file, separated by Reset events    *)
(* carrying the plan of the next run (= a fresh process).                  *)
(*                                                                         *)
(* Event kinds (the driver folds the hook events of one lock-holding       *)
(* window into spec-level events, purely structurally):                    *)
(*   Reset(plan)            start of a run in a fresh process              *)
(*   Begin(t, call)         CallBegin                                      *)
(*   Acquire(t, c)          lock of cache c in {"q","s"} acquired          *)
(*   Use(t, c, kind)        kind = "hit" | "load" | "panic"                *)
(*   Release(t, c)          guard dropped normally                         *)
(*   End(t, call, outcome)  outcome class as observed by the caller        *)
(* Instantiated by Trace_C08 (the universe of MC_C08, harness threads) and *)
(* Trace_Suite (the repository's own test crates, one rustc process each). *)
(***************************************************************************)
EXTENDS Cache, Json, IOUtils, TLCExt


Rec == ndJsonDeserialize(IOEnv.TRACE)

VARIABLE l
tvars == <<vars, l>>

TraceInit ==
  /\ l = 1
  /\ plan = Rec[1].plan
  /\ qCache = [p \in Paths |-> "none"]
  /\ sCache = [p \in Paths |-> "none"]
  /\ qLock = "free" /\ sLock = "free"
  /\ qPoison = FALSE /\ sPoison = FALSE
  /\ pc = [t \in Threads |-> "idle"]
  /\ cur = [t \in Threads |-> ""]
  /\ todo = [t \in Threads |-> IF t \in DOMAIN plan THEN plan[t] ELSE <<>>]
  /\ qv = [t \in Threads |-> ""]
  /\ sv = [t \in Threads |-> ""]
  /\ hist = <<>>
  /\ acq = <<>>

E == Rec[l]

Reset ==
  /\ E.a = "Reset"
  /\ plan' = E.plan
  /\ qCache' = [p \in Paths |-> "none"]
  /\ sCache' = [p \in Paths |-> "none"]
  /\ qLock' = "free" /\ sLock' = "free"
  /\ qPoison' = FALSE /\ sPoison' = FALSE
  /\ pc' = [t \in Threads |-> "idle"]
  /\ cur' = [t \in Threads |-> ""]
  /\ todo' = [t \in Threads |-> IF t \in DOMAIN E.plan THEN E.plan[t] ELSE <<>>]
  /\ qv' = [t \in Threads |-> ""]
  /\ sv' = [t \in Threads |-> ""]
  /\ hist' = <<>>
  /\ acq' = <<>>

TBegin == /\ E.a = "Begin" /\ Begin(E.t) /\ cur'[E.t] = E.call

TAcquire ==
  /\ E.a = "Acquire"
  /\ IF E.c = "q" THEN AcquireQ(E.t) /\ qLock' = E.t ELSE AcquireS(E.t) /\ sLock' = E.t

TUse ==
  /\ E.a = "Use"
  /\ IF E.c = "q"
     THEN /\ UseQ(E.t)
          /\ LET p == CallDef[cur[E.t]].q IN
               CASE E.kind = "hit"   -> qCache[p] # "none"
                 [] E.kind = "load"  -> qCache[p] = "none" /\ qCache'[p] # "none"
                 [] E.kind = "panic" -> pc'[E.t] = "idle" /\ qPoison'
     ELSE /\ UseS(E.t)
          /\ LET p == CallDef[cur[E.t]].s IN
               CASE E.kind = "hit"   -> sCache[p] # "none"
                 [] E.kind = "load"  -> sCache[p] = "none" /\ sCache'[p] # "none"
                 [] E.kind = "panic" -> pc'[E.t] = "idle" /\ sPoison'

TRelease ==
  /\ E.a = "Release"
  /\ IF E.c = "q" THEN ReleaseQ(E.t) ELSE ReleaseS(E.t)

\* a call that panicked inside the library: the spec already finished it (in Use / Acquire);
\* a call that returned: the Compute step.  Either way the observed outcome must be Pure.
LastOf(t) == LET idx == {i \in 1..Len(hist) : hist[i].t = t} IN hist[CHOOSE i \in idx : \A j \in idx : j <= i]

TEnd ==
  /\ E.a = "End"
  /\ IF pc[E.t] = "compute"
     THEN /\ Compute(E.t)
          /\ hist'[Len(hist')].outcome = E.outcome
     ELSE \* finished by a panic: the thread is idle and its last recorded outcome is the observed one
          /\ pc[E.t] = "idle"
          /\ \E i \in 1..Len(hist) : hist[i].t = E.t
          /\ LastOf(E.t).call = E.call
          /\ LastOf(E.t).outcome = E.outcome
          /\ UNCHANGED vars
  /\ E.outcome = Pure(E.call)

\* the caller saw "cache is poisoned": a lock acquisition that panics (only possible without recovery)
TPoisoned ==
  /\ E.a = "Poisoned"
  /\ (AcquireQ(E.t) \/ AcquireS(E.t))
  /\ pc'[E.t] = "idle"

TraceNext ==
  /\ l <= Len(Rec)
  /\ (Reset \/ TBegin \/ TAcquire \/ TUse \/ TRelease \/ TEnd \/ TPoisoned)
  /\ l' = l + 1

TraceSpec == TraceInit /\ [][TraceNext]_tvars

Accepted ==
  IF TLCGet("stats").diameter - 1 = Len(Rec) THEN TRUE
  ELSE /\ PrintT(<<"UNMATCHED", TLCGet("stats").diameter>>)
       /\ FALSE
=============================================================================
