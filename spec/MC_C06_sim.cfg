SPECIFICATION Spec
CONSTANTS
  MaxFrags = 2
  MaxNodes = 8
  FieldPool = {}
  Extended = {}
INVARIANTS Lemma Emit
CHECK_DEADLOCK FALSE
