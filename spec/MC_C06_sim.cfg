SPECIFICATION Spec
CONSTANTS
  MaxFrags = 2
  MaxNodes = 8
  FieldPool = {}
INVARIANTS Lemma Emit
CHECK_DEADLOCK FALSE
