----------------------------- MODULE DeriveAttr -----------------------------
(***************************************************************************)
(* `#[graphql(...)]` attribute of the derive macro (property C18).          *)
(*                                                                         *)
(* An attribute is a comma separated list of entries:                      *)
(*     key = "literal"         (kv)                                        *)
(*     flag_identifier         (flag)                                      *)
(*     key("a", "b")           (list)                                      *)
(* The token stream the macro sees is, per entry,                          *)
(*     Ident Punct(=) Literal | Ident | Ident Group                        *)
(* with Punct(,) between entries and optionally after the last one.        *)
(*                                                                         *)
(* The implementation (graphql_query_derive/src/attributes.rs) does not    *)
(* parse this grammar: it scans the flat token list positionally.  The     *)
(* scanner is modelled below one loop iteration per action, and checked    *)
(* against the reference meaning: each recognised key yields the value     *)
(* written for it, absent keys yield the documented default.               *)
(***************************************************************************)
EXTENDS Naturals, Sequences, FiniteSets, TLC

KvKeys   == {"query_path", "schema_path", "response_derives", "variables_derives",
             "custom_scalars_module", "deprecated", "normalization", "fragments_other_variant"}
Required == {"query_path", "schema_path"}
FlagKeys == {"skip_serializing_none"}
ListKeys == {"extern_enums"}
AllKeys  == KvKeys \cup FlagKeys \cup ListKeys

\* the value written for a key (one representative value per key; value atoms are
\* expanded and written in several literal styles by the driver)
ValueOf(k) ==
  CASE k = "query_path"  -> "q/My Query\\v2.graphql"    \* a blank and a backslash: nothing may rewrite the written value
    [] k = "schema_path" -> "../schemas/schema.graphql"
    [] k = "response_derives" -> "Debug, PartialEq"
    [] k = "variables_derives" -> "Debug,Clone"
    [] k = "custom_scalars_module" -> "crate::scalars"
    [] k = "deprecated" -> "deny"
    [] k = "normalization" -> "rust"
    [] k = "fragments_other_variant" -> "true"
    [] OTHER -> ""

ListValue == <<"Color", "with space", "Direction">>

Entry(k) == IF k \in KvKeys THEN [kind |-> "kv", key |-> k, value |-> ValueOf(k), items |-> <<>>]
            ELSE IF k \in FlagKeys THEN [kind |-> "flag", key |-> k, value |-> "", items |-> <<>>]
            ELSE [kind |-> "list", key |-> k, value |-> "", items |-> ListValue]

\* tokens of one entry
Tok(t, v, items) == [t |-> t, v |-> v, items |-> items]
Comma == Tok("punct", ",", <<>>)
EntryTokens(e) ==
  CASE e.kind = "kv"   -> <<Tok("ident", e.key, <<>>), Tok("punct", "=", <<>>), Tok("lit", e.value, <<>>)>>
    [] e.kind = "flag" -> <<Tok("ident", e.key, <<>>)>>
    [] e.kind = "list" -> <<Tok("ident", e.key, <<>>), Tok("group", "", e.items)>>

RECURSIVE Tokens(_, _)
Tokens(entries, trailing) ==
  IF entries = <<>> THEN <<>>
  ELSE EntryTokens(Head(entries)) \o
       (IF Len(entries) > 1 \/ trailing THEN <<Comma>> ELSE <<>>) \o Tokens(Tail(entries), trailing)

\* ---------------------------------------------------------------------------
\* Reference meaning of an attribute (what the documentation promises)
Written(entries, k) == \E i \in 1..Len(entries) : entries[i].key = k
EntryFor(entries, k) == entries[CHOOSE i \in 1..Len(entries) : entries[i].key = k]

RefKv(entries, k) == IF Written(entries, k) THEN [found |-> TRUE, value |-> EntryFor(entries, k).value]
                     ELSE [found |-> FALSE, value |-> ""]

RefOptions(entries) ==
  [ query_path  |-> RefKv(entries, "query_path").value,
    schema_path |-> RefKv(entries, "schema_path").value,
    response_derives  |-> RefKv(entries, "response_derives"),
    variables_derives |-> RefKv(entries, "variables_derives"),
    custom_scalars_module |-> RefKv(entries, "custom_scalars_module"),
    \* the written value decides (in MC_C18 every key carries its representative ValueOf(k); the traces of
    \* the repository's own derives carry whatever the tests wrote)
    deprecated |-> IF Written(entries, "deprecated") THEN EntryFor(entries, "deprecated").value ELSE "warn",
    normalization |-> IF Written(entries, "normalization") THEN EntryFor(entries, "normalization").value ELSE "none",
    fragments_other_variant |-> Written(entries, "fragments_other_variant")
                                /\ EntryFor(entries, "fragments_other_variant").value = "true",
    skip_serializing_none |-> Written(entries, "skip_serializing_none"),
    extern_enums |-> IF Written(entries, "extern_enums") THEN EntryFor(entries, "extern_enums").items ELSE <<>> ]
=============================================================================
