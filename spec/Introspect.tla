------------------------------ MODULE Introspect ------------------------------
(***************************************************************************)
(* `graphql-client introspect-schema` (property C20) as a protocol between *)
(* the command line, the output file, and an HTTP endpoint that may        *)
(* misbehave.  One action per step of introspect_schema():                 *)
(*   ParseArgs -> [OpenOutput] -> Send -> server reply -> CheckStatus      *)
(*             -> Decode -> [OpenOutput] -> Write -> Exit                  *)
(* OpenOutputEarly says where the output file is created: before the       *)
(* request (File::create truncates an existing file at that moment) or     *)
(* after the reply has been decoded.                                       *)
(***************************************************************************)
EXTENDS Naturals, Sequences, FiniteSets, TLC

CONSTANT OpenOutputEarly

\* ---- header strings and their reference parse ----------------------------
\* [text, ok, name, value]: split at the first colon, both sides trimmed; refused without a colon,
\* with an empty name, or with whitespace inside the name
H(text, ok, name, value) == [text |-> text, ok |-> ok, name |-> name, value |-> value]
HeaderPool ==
  { H("X-Name: Value", TRUE, "X-Name", "Value"),
    H("X-Name:Value", TRUE, "X-Name", "Value"),
    H("  X-Trim  :   padded value  ", TRUE, "X-Trim", "padded value"),
    H("X-Tab:$TABValue$TAB", TRUE, "X-Tab", "Value"),
    H("X-Colons: a:b:c", TRUE, "X-Colons", "a:b:c"),
    H("X-Inner: two  inner   spaces", TRUE, "X-Inner", "two  inner   spaces"),
    H("x-name: second value", TRUE, "x-name", "second value"),
    H("X-Empty:", TRUE, "X-Empty", ""),
    H("NoColonHere", FALSE, "", ""),
    H(": value without name", FALSE, "", ""),
    H("   : blank name", FALSE, "", ""),
    H("X Name: whitespace in name", FALSE, "", ""),
    H("X$TABName: tab in name", FALSE, "", "") }

\* "200badutf8": a 200 reply shaped like JSON whose bytes are not UTF-8 (hence not JSON, RFC 8259 s8.1)
\* "200jsonthengarbage": a complete JSON value followed by other text; "200number": the text `404 page not found`
\*  (which BEGINS with a JSON value) - neither body is JSON
ServerBehaviours == {"200json", "200garbage", "200badutf8", "200jsonthengarbage", "200number", "404json", "400text", "500json", "503text", "refused", "closemid"}
Succeeds(b) == b = "200json"

\* the introspection document a flag combination selects
Document(isOneOf, specifyByUrl) ==
  IF isOneOf /\ specifyByUrl THEN "IntrospectionQueryWithIsOneOfSpecifiedByURL"
  ELSE IF isOneOf THEN "IntrospectionQueryWithIsOneOf"
  ELSE IF specifyByUrl THEN "IntrospectionQueryWithSpecifiedBy"
  ELSE "IntrospectionQuery"

VARIABLES isOneOf, specifyByUrl, auth, headers, output, existing, server,   \* the scenario
          stage, file, request, exit, stdoutJson

ivars == <<isOneOf, specifyByUrl, auth, headers, output, existing, server, stage, file, request, exit, stdoutJson>>
scenario == <<isOneOf, specifyByUrl, auth, headers, output, existing, server>>

\* file: "absent" | "old" (the previous content) | "empty" (truncated) | "json" (the server's JSON)
Init ==
  /\ isOneOf \in BOOLEAN /\ specifyByUrl \in BOOLEAN
  /\ auth \in {"", "s3cr3t-token"}
  /\ headers \in {<<>>} \cup {<<h>> : h \in HeaderPool} \cup
                 {<<h1, h2>> : h1 \in {x \in HeaderPool : x.name = "X-Name"}, h2 \in {x \in HeaderPool : x.name \in {"x-name", "X-Trim"}}}
  /\ output \in {"file", "stdout"}
  /\ existing \in BOOLEAN
  /\ (output = "stdout" => ~existing)
  /\ server \in ServerBehaviours
  /\ stage = "start"
  /\ file = IF existing THEN "old" ELSE "absent"
  /\ request = "none"
  /\ exit = 99
  /\ stdoutJson = FALSE

HeadersOk == \A i \in 1..Len(headers) : headers[i].ok

\* clap parses the arguments (including every --header) before anything else runs
ParseArgs ==
  /\ stage = "start"
  /\ IF HeadersOk THEN stage' = "parsed" /\ UNCHANGED exit
     ELSE stage' = "done" /\ exit' = 2
  /\ UNCHANGED <<scenario, file, request, stdoutJson>>

OpenEarly ==
  /\ stage = "parsed"
  /\ stage' = "opened"
  /\ file' = IF OpenOutputEarly /\ output = "file" THEN "empty" ELSE file
  /\ UNCHANGED <<scenario, request, exit, stdoutJson>>

Send ==
  /\ stage = "opened"
  /\ IF server = "refused"
     THEN /\ stage' = "done" /\ exit' = 1 /\ UNCHANGED request
     ELSE /\ request' = Document(isOneOf, specifyByUrl) /\ stage' = "replied" /\ UNCHANGED exit
  /\ UNCHANGED <<scenario, file, stdoutJson>>

CheckStatusAndDecode ==
  /\ stage = "replied"
  /\ IF Succeeds(server) THEN stage' = "decoded" /\ UNCHANGED exit
     ELSE stage' = "done" /\ exit' = 1
  /\ UNCHANGED <<scenario, file, request, stdoutJson>>

Write ==
  /\ stage = "decoded"
  /\ IF output = "file" THEN file' = "json" /\ UNCHANGED stdoutJson
     ELSE stdoutJson' = TRUE /\ UNCHANGED file
  /\ stage' = "done" /\ exit' = 0
  /\ UNCHANGED <<scenario, request>>

Next == ParseArgs \/ OpenEarly \/ Send \/ CheckStatusAndDecode \/ Write
Spec == Init /\ [][Next]_ivars /\ WF_ivars(Next)

Done == stage = "done"
\* C20
SuccessDeliversJson == (Done /\ exit = 0) => (IF output = "file" THEN file = "json" ELSE stdoutJson)
FailureLeavesFile   == (Done /\ exit # 0 /\ existing) => file = "old"
RefusedArgsSendNothing == (Done /\ ~HeadersOk) => (request = "none" /\ exit # 0)
ExitReflectsOutcome == Done => (exit = 0 <=> (HeadersOk /\ Succeeds(server)))
RequestIsSelectedDocument == request # "none" => request = Document(isOneOf, specifyByUrl)
Terminates == <>Done
=============================================================================
