------------------------------- MODULE MC_C20 -------------------------------
EXTENDS Introspect, Json
Case == [isOneOf |-> isOneOf, specifyByUrl |-> specifyByUrl, auth |-> auth, headers |-> headers, output |-> output,
         existing |-> existing, server |-> server, headersOk |-> HeadersOk,
         exit |-> exit, file |-> file, request |-> request, stdoutJson |-> stdoutJson]
Emit == Done => PrintT(<<"CASE", ToJson(Case)>>)
=============================================================================
