----------------------------- MODULE CacheProof -----------------------------
(***************************************************************************)
(* Machine-checked (TLAPS) proof that Cache.tla satisfies Purity,          *)
(* MutualExclusion and CacheFaithful for EVERY set of threads, every plan, *)
(* every file table and every call table - the unbounded counterpart of    *)
(* what TLC checks exhaustively for 2-3 threads in MC_C08.                 *)
(* The only assumptions: lock() recovers a poisoned mutex (the repaired    *)
(* tree, commit 06032a3; with PoisonRecovery = FALSE TLC exhibits the      *)
(* counterexample D1), and the sentinel "free" is not a thread id.         *)
(***************************************************************************)
EXTENDS Cache, TLAPS

CallIds == DOMAIN CallDef

ASSUME Assm ==
  /\ PoisonRecovery = TRUE
  /\ "free" \notin Threads
  /\ PlanSet \subseteq [Threads -> Seq(CallIds)]
  /\ CallDef \in [CallIds -> [q : Paths, s : Paths, o : STRING]]
  /\ Files \in [Paths -> [status : STRING, content : STRING]]

PcSet == {"idle", "q_wait", "q_held", "q_release", "s_wait", "s_held", "s_release", "compute"}
AfterQ == {"q_release", "s_wait", "s_held", "s_release", "compute"}
AfterS == {"s_release", "compute"}

Outcomes == {Pure(c) : c \in CallIds}
HRec == [t : Threads, call : CallIds, outcome : Outcomes]

TypeOK ==
  /\ pc \in [Threads -> PcSet]
  /\ todo \in [Threads -> Seq(CallIds)]
  /\ hist \in Seq(HRec)
  /\ cur \in [Threads -> CallIds \cup {""}]
  /\ qv \in [Threads -> STRING] /\ sv \in [Threads -> STRING]
  /\ qCache \in [Paths -> STRING] /\ sCache \in [Paths -> STRING]
  /\ \A t \in Threads : pc[t] # "idle" => cur[t] \in CallIds

QvOK == \A t \in Threads : pc[t] \in AfterQ =>
           /\ Files[CallDef[cur[t]].q].status = "ok"
           /\ qv[t] = Files[CallDef[cur[t]].q].content
SvOK == \A t \in Threads : pc[t] \in AfterS =>
           /\ Files[CallDef[cur[t]].s].status = "ok"
           /\ sv[t] = Files[CallDef[cur[t]].s].content

IndInv == TypeOK /\ MutualExclusion /\ CacheFaithful /\ QvOK /\ SvOK /\ Purity

LEMMA InitInv == Init => IndInv
  <1> SUFFICES ASSUME Init PROVE IndInv OBVIOUS
  <1>1. TypeOK
    <2>1. plan \in [Threads -> Seq(CallIds)] BY Assm DEF Init
    <2>2. hist = <<>> BY DEF Init
    <2> QED BY <2>1, <2>2 DEF Init, TypeOK, PcSet
  <1>2. MutualExclusion BY DEF Init, MutualExclusion
  <1>3. CacheFaithful BY DEF Init, CacheFaithful, Paths
  <1>4. QvOK /\ SvOK BY DEF Init, QvOK, SvOK, AfterQ, AfterS
  <1>5. Purity BY DEF Init, Purity
  <1> QED BY <1>1, <1>2, <1>3, <1>4, <1>5 DEF IndInv

\* appending a record whose outcome is the pure outcome keeps hist typed and pure
LEMMA FinishPure ==
  ASSUME NEW t \in Threads, NEW o, TypeOK, Purity, pc[t] # "idle", o = Pure(cur[t]),
         hist' = Append(hist, [t |-> t, call |-> cur[t], outcome |-> o])
  PROVE  hist' \in Seq(HRec) /\ Purity'
  <1>1. cur[t] \in CallIds BY DEF TypeOK
  <1>2. [t |-> t, call |-> cur[t], outcome |-> o] \in HRec BY <1>1 DEF HRec, Outcomes
  <1>3. hist \in Seq(HRec) BY DEF TypeOK
  <1>4. hist' \in Seq(HRec) BY <1>2, <1>3
  <1>5. Purity'
    <2> SUFFICES ASSUME NEW i \in 1..Len(hist') PROVE hist'[i].outcome = Pure(hist'[i].call)
        BY DEF Purity
    <2>1. Len(hist') = Len(hist) + 1 BY <1>3
    <2>2. CASE i \in 1..Len(hist)
      <3>1. hist'[i] = hist[i] BY <2>2, <1>3
      <3> QED BY <3>1, <2>2 DEF Purity
    <2>3. CASE i = Len(hist) + 1
      <3>1. hist'[i] = [t |-> t, call |-> cur[t], outcome |-> o] BY <2>3, <1>3
      <3> QED BY <3>1
    <2> QED BY <2>1, <2>2, <2>3, <1>3
  <1> QED BY <1>4, <1>5

\* ---- the inductive step, one lemma per action ---------------------------
USE Assm

LEMMA BeginInv == ASSUME IndInv, NEW t \in Threads, Begin(t) PROVE IndInv'
  <1>1. TypeOK'
    <2>1. todo[t] \in Seq(CallIds) /\ todo[t] # <<>> BY DEF IndInv, TypeOK, Begin
    <2>2. Head(todo[t]) \in CallIds /\ Tail(todo[t]) \in Seq(CallIds) BY <2>1
    <2> QED BY <2>2 DEF IndInv, TypeOK, Begin, PcSet
  <1>2. MutualExclusion' BY DEF IndInv, TypeOK, MutualExclusion, Begin
  <1>3. CacheFaithful' BY DEF IndInv, CacheFaithful, Begin, Paths
  <1>4. QvOK' /\ SvOK' BY DEF IndInv, TypeOK, QvOK, SvOK, Begin, AfterQ, AfterS
  <1>5. Purity' BY DEF IndInv, Purity, Begin
  <1> QED BY <1>1, <1>2, <1>3, <1>4, <1>5 DEF IndInv

LEMMA AcquireQInv == ASSUME IndInv, NEW t \in Threads, AcquireQ(t) PROVE IndInv'
  <1>0. ~(qPoison /\ ~PoisonRecovery) OBVIOUS
  <1>a. qLock' = t /\ pc' = [pc EXCEPT ![t] = "q_held"] /\ UNCHANGED hist BY <1>0 DEF AcquireQ
  <1>1. TypeOK' BY <1>a DEF IndInv, TypeOK, AcquireQ, PcSet
  <1>2. MutualExclusion' BY <1>a DEF IndInv, TypeOK, MutualExclusion, AcquireQ
  <1>3. CacheFaithful' BY DEF IndInv, CacheFaithful, AcquireQ, Paths
  <1>4. QvOK' /\ SvOK' BY <1>a DEF IndInv, TypeOK, QvOK, SvOK, AcquireQ, AfterQ, AfterS
  <1>5. Purity' BY <1>a DEF IndInv, Purity, AcquireQ
  <1> QED BY <1>1, <1>2, <1>3, <1>4, <1>5 DEF IndInv

LEMMA AcquireSInv == ASSUME IndInv, NEW t \in Threads, AcquireS(t) PROVE IndInv'
  <1>0. ~(sPoison /\ ~PoisonRecovery) OBVIOUS
  <1>a. sLock' = t /\ pc' = [pc EXCEPT ![t] = "s_held"] /\ UNCHANGED hist BY <1>0 DEF AcquireS
  <1>1. TypeOK' BY <1>a DEF IndInv, TypeOK, AcquireS, PcSet
  <1>2. MutualExclusion' BY <1>a DEF IndInv, TypeOK, MutualExclusion, AcquireS
  <1>3. CacheFaithful' BY DEF IndInv, CacheFaithful, AcquireS, Paths
  <1>4. QvOK' /\ SvOK' BY <1>a DEF IndInv, TypeOK, QvOK, SvOK, AcquireS, AfterQ, AfterS
  <1>5. Purity' BY <1>a DEF IndInv, Purity, AcquireS
  <1> QED BY <1>1, <1>2, <1>3, <1>4, <1>5 DEF IndInv

LEMMA ReleaseQInv == ASSUME IndInv, NEW t \in Threads, ReleaseQ(t) PROVE IndInv'
  <1>1. TypeOK' BY DEF IndInv, TypeOK, ReleaseQ, PcSet
  <1>2. MutualExclusion' BY DEF IndInv, TypeOK, MutualExclusion, ReleaseQ
  <1>3. CacheFaithful' BY DEF IndInv, CacheFaithful, ReleaseQ, Paths
  <1>4. QvOK' /\ SvOK' BY DEF IndInv, TypeOK, QvOK, SvOK, ReleaseQ, AfterQ, AfterS
  <1>5. Purity' BY DEF IndInv, Purity, ReleaseQ
  <1> QED BY <1>1, <1>2, <1>3, <1>4, <1>5 DEF IndInv

LEMMA ReleaseSInv == ASSUME IndInv, NEW t \in Threads, ReleaseS(t) PROVE IndInv'
  <1>1. TypeOK' BY DEF IndInv, TypeOK, ReleaseS, PcSet
  <1>2. MutualExclusion' BY DEF IndInv, TypeOK, MutualExclusion, ReleaseS
  <1>3. CacheFaithful' BY DEF IndInv, CacheFaithful, ReleaseS, Paths
  <1>4. QvOK' /\ SvOK' BY DEF IndInv, TypeOK, QvOK, SvOK, ReleaseS, AfterQ, AfterS
  <1>5. Purity' BY DEF IndInv, Purity, ReleaseS
  <1> QED BY <1>1, <1>2, <1>3, <1>4, <1>5 DEF IndInv

LEMMA UseQInv == ASSUME IndInv, NEW t \in Threads, UseQ(t) PROVE IndInv'
  <1> DEFINE p == CallDef[cur[t]].q
  <1>0. pc[t] = "q_held" /\ cur[t] \in CallIds /\ qLock = t /\ p \in Paths
    BY DEF UseQ, IndInv, TypeOK, MutualExclusion
  <1>u. UNCHANGED <<sCache, sLock, sPoison, cur, todo, sv, plan, acq>> BY DEF UseQ
  <1>1. CASE qCache[p] # "none"
    <2>a. /\ qv' = [qv EXCEPT ![t] = qCache[p]] /\ pc' = [pc EXCEPT ![t] = "q_release"]
          /\ UNCHANGED <<qCache, qLock, qPoison, hist>>
      BY <1>1 DEF UseQ
    <2>b. Files[p].status = "ok" /\ qCache[p] = Files[p].content BY <1>0, <1>1 DEF IndInv, CacheFaithful
    <2>1. TypeOK' BY <2>a, <1>u, <1>0 DEF IndInv, TypeOK, PcSet
    <2>2. MutualExclusion' BY <2>a, <1>u, <1>0 DEF IndInv, TypeOK, MutualExclusion
    <2>3. CacheFaithful' BY <2>a, <1>u DEF IndInv, CacheFaithful, Paths
    <2>4. QvOK' /\ SvOK' BY <2>a, <2>b, <1>u, <1>0 DEF IndInv, TypeOK, QvOK, SvOK, AfterQ, AfterS
    <2>5. Purity' BY <2>a DEF IndInv, Purity
    <2> QED BY <2>1, <2>2, <2>3, <2>4, <2>5 DEF IndInv
  <1>2. CASE qCache[p] = "none" /\ Files[p].status = "ok"
    <2>a. /\ qCache' = [qCache EXCEPT ![p] = Files[p].content]
          /\ qv' = [qv EXCEPT ![t] = Files[p].content] /\ pc' = [pc EXCEPT ![t] = "q_release"]
          /\ UNCHANGED <<qLock, qPoison, hist>>
      BY <1>2 DEF UseQ
    <2>1. TypeOK' BY <2>a, <1>u, <1>0 DEF IndInv, TypeOK, PcSet
    <2>2. MutualExclusion' BY <2>a, <1>u, <1>0 DEF IndInv, TypeOK, MutualExclusion
    <2>3. CacheFaithful' BY <2>a, <1>u, <1>2, <1>0 DEF IndInv, TypeOK, CacheFaithful, Paths
    <2>4. QvOK' /\ SvOK' BY <2>a, <1>2, <1>u, <1>0 DEF IndInv, TypeOK, QvOK, SvOK, AfterQ, AfterS
    <2>5. Purity' BY <2>a DEF IndInv, Purity
    <2> QED BY <2>1, <2>2, <2>3, <2>4, <2>5 DEF IndInv
  <1>3. CASE qCache[p] = "none" /\ Files[p].status # "ok"
    <2> DEFINE o == "panic:query:" \o Files[p].status
    <2>a. /\ qPoison' = TRUE /\ qLock' = "free"
          /\ hist' = Append(hist, [t |-> t, call |-> cur[t], outcome |-> o])
          /\ pc' = [pc EXCEPT ![t] = "idle"]
          /\ UNCHANGED <<qCache, qv>>
      BY <1>3 DEF UseQ, Finish
    <2>b. o = Pure(cur[t])
      BY <1>3 DEF Pure
    <2>c. hist' \in Seq(HRec) /\ Purity' BY <2>a, <2>b, <1>0, FinishPure DEF IndInv
    <2>1. TypeOK' BY <2>a, <2>c, <1>u, <1>0 DEF IndInv, TypeOK, PcSet
    <2>2. MutualExclusion' BY <2>a, <1>u, <1>0 DEF IndInv, TypeOK, MutualExclusion
    <2>3. CacheFaithful' BY <2>a, <1>u DEF IndInv, CacheFaithful, Paths
    <2>4. QvOK' /\ SvOK' BY <2>a, <1>u, <1>0 DEF IndInv, TypeOK, QvOK, SvOK, AfterQ, AfterS
    <2> QED BY <2>1, <2>2, <2>3, <2>4, <2>c DEF IndInv
  <1> QED BY <1>1, <1>2, <1>3

LEMMA UseSInv == ASSUME IndInv, NEW t \in Threads, UseS(t) PROVE IndInv'
  <1> DEFINE p == CallDef[cur[t]].s
  <1>0. pc[t] = "s_held" /\ cur[t] \in CallIds /\ sLock = t /\ p \in Paths
    BY DEF UseS, IndInv, TypeOK, MutualExclusion
  <1>u. UNCHANGED <<qCache, qLock, qPoison, cur, todo, qv, plan, acq>> BY DEF UseS
  <1>1. CASE sCache[p] # "none"
    <2>a. /\ sv' = [sv EXCEPT ![t] = sCache[p]] /\ pc' = [pc EXCEPT ![t] = "s_release"]
          /\ UNCHANGED <<sCache, sLock, sPoison, hist>>
      BY <1>1 DEF UseS
    <2>b. Files[p].status = "ok" /\ sCache[p] = Files[p].content BY <1>0, <1>1 DEF IndInv, CacheFaithful
    <2>1. TypeOK' BY <2>a, <1>u, <1>0 DEF IndInv, TypeOK, PcSet
    <2>2. MutualExclusion' BY <2>a, <1>u, <1>0 DEF IndInv, TypeOK, MutualExclusion
    <2>3. CacheFaithful' BY <2>a, <1>u DEF IndInv, CacheFaithful, Paths
    <2>4. QvOK' /\ SvOK' BY <2>a, <2>b, <1>u, <1>0 DEF IndInv, TypeOK, QvOK, SvOK, AfterQ, AfterS
    <2>5. Purity' BY <2>a DEF IndInv, Purity
    <2> QED BY <2>1, <2>2, <2>3, <2>4, <2>5 DEF IndInv
  <1>2. CASE sCache[p] = "none" /\ Files[p].status = "ok"
    <2>a. /\ sCache' = [sCache EXCEPT ![p] = Files[p].content]
          /\ sv' = [sv EXCEPT ![t] = Files[p].content] /\ pc' = [pc EXCEPT ![t] = "s_release"]
          /\ UNCHANGED <<sLock, sPoison, hist>>
      BY <1>2 DEF UseS
    <2>1. TypeOK' BY <2>a, <1>u, <1>0 DEF IndInv, TypeOK, PcSet
    <2>2. MutualExclusion' BY <2>a, <1>u, <1>0 DEF IndInv, TypeOK, MutualExclusion
    <2>3. CacheFaithful' BY <2>a, <1>u, <1>2, <1>0 DEF IndInv, TypeOK, CacheFaithful, Paths
    <2>4. QvOK' /\ SvOK' BY <2>a, <1>2, <1>u, <1>0 DEF IndInv, TypeOK, QvOK, SvOK, AfterQ, AfterS
    <2>5. Purity' BY <2>a DEF IndInv, Purity
    <2> QED BY <2>1, <2>2, <2>3, <2>4, <2>5 DEF IndInv
  <1>3. CASE sCache[p] = "none" /\ Files[p].status # "ok"
    <2> DEFINE o == "panic:schema:" \o Files[p].status
    <2>a. /\ sPoison' = TRUE /\ sLock' = "free"
          /\ hist' = Append(hist, [t |-> t, call |-> cur[t], outcome |-> o])
          /\ pc' = [pc EXCEPT ![t] = "idle"]
          /\ UNCHANGED <<sCache, sv>>
      BY <1>3 DEF UseS, Finish
    <2>b. o = Pure(cur[t])
      BY <1>3, <1>0 DEF Pure, IndInv, QvOK, AfterQ
    <2>c. hist' \in Seq(HRec) /\ Purity' BY <2>a, <2>b, <1>0, FinishPure DEF IndInv
    <2>1. TypeOK' BY <2>a, <2>c, <1>u, <1>0 DEF IndInv, TypeOK, PcSet
    <2>2. MutualExclusion' BY <2>a, <1>u, <1>0 DEF IndInv, TypeOK, MutualExclusion
    <2>3. CacheFaithful' BY <2>a, <1>u DEF IndInv, CacheFaithful, Paths
    <2>4. QvOK' /\ SvOK' BY <2>a, <1>u, <1>0 DEF IndInv, TypeOK, QvOK, SvOK, AfterQ, AfterS
    <2> QED BY <2>1, <2>2, <2>3, <2>4, <2>c DEF IndInv
  <1> QED BY <1>1, <1>2, <1>3

LEMMA ComputeInv == ASSUME IndInv, NEW t \in Threads, Compute(t) PROVE IndInv'
  <1> DEFINE o == "ok:" \o qv[t] \o "/" \o sv[t] \o "/" \o CallDef[cur[t]].o
  <1>0. pc[t] = "compute" /\ cur[t] \in CallIds BY DEF Compute, IndInv, TypeOK
  <1>a. /\ hist' = Append(hist, [t |-> t, call |-> cur[t], outcome |-> o])
        /\ pc' = [pc EXCEPT ![t] = "idle"]
        /\ UNCHANGED <<qCache, sCache, qLock, sLock, qPoison, sPoison, cur, todo, qv, sv, plan, acq>>
    BY DEF Compute, Finish
  <1>b. o = Pure(cur[t])
    <2>1. /\ Files[CallDef[cur[t]].q].status = "ok" /\ qv[t] = Files[CallDef[cur[t]].q].content
          /\ Files[CallDef[cur[t]].s].status = "ok" /\ sv[t] = Files[CallDef[cur[t]].s].content
      BY <1>0 DEF IndInv, QvOK, SvOK, AfterQ, AfterS
    <2> QED BY <2>1 DEF Pure
  <1>c. hist' \in Seq(HRec) /\ Purity' BY <1>a, <1>b, <1>0, FinishPure DEF IndInv
  <1>1. TypeOK' BY <1>a, <1>c, <1>0 DEF IndInv, TypeOK, PcSet
  <1>2. MutualExclusion' BY <1>a, <1>0 DEF IndInv, TypeOK, MutualExclusion
  <1>3. CacheFaithful' BY <1>a DEF IndInv, CacheFaithful, Paths
  <1>4. QvOK' /\ SvOK' BY <1>a, <1>0 DEF IndInv, TypeOK, QvOK, SvOK, AfterQ, AfterS
  <1> QED BY <1>1, <1>2, <1>3, <1>4, <1>c DEF IndInv

LEMMA StutterInv == ASSUME IndInv, UNCHANGED vars PROVE IndInv'
  BY DEF IndInv, TypeOK, MutualExclusion, CacheFaithful, QvOK, SvOK, Purity, vars, Paths

LEMMA NextInv == IndInv /\ [Next]_vars => IndInv'
  BY BeginInv, AcquireQInv, UseQInv, ReleaseQInv, AcquireSInv, UseSInv, ReleaseSInv, ComputeInv, StutterInv DEF Next

THEOREM Safety == Spec => [](Purity /\ MutualExclusion /\ CacheFaithful)
  <1>1. IndInv => Purity /\ MutualExclusion /\ CacheFaithful BY DEF IndInv
  <1> QED BY InitInv, NextInv, <1>1, PTL DEF Spec
=============================================================================
