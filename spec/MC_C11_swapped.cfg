SPECIFICATION Spec
CONSTANT Table <- SwappedTable
INVARIANTS SearchCorrect
CHECK_DEADLOCK FALSE
