SPECIFICATION Spec
CONSTANT MaxOps = 2
INVARIANTS SelectSound Emit
CHECK_DEADLOCK FALSE
