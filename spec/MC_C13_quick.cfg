SPECIFICATION Spec
CONSTANT MaxDepth = 4
INVARIANTS TypeOK NoDoubleRequired ExtractionFaithful Agree Emit
PROPERTY Terminates
CHECK_DEADLOCK FALSE
