------------------------------- MODULE MC_C15 -------------------------------
(* C15: exhaustive enumeration of the response-body grammar within bounds.   *)
EXTENDS Envelope, Json

CONSTANT MaxErrors   \* 1: lists of 0..1 entries; 2: also two-entry lists (second entry fixed)

VARIABLES data, topExt, topUnk, errState, msg, loc, path, ext, unk

vars == <<data, topExt, topUnk, errState, msg, loc, path, ext, unk>>

ErrStates == {"absent", "null", "empty", "one"} \cup (IF MaxErrors >= 2 THEN {"two"} ELSE {})

Init == /\ data \in DataChoices
        /\ topExt \in ExtChoices
        /\ topUnk \in BOOLEAN
        /\ errState \in ErrStates
        /\ msg \in Messages
        /\ loc \in LocationsChoices
        /\ path \in PathChoices
        /\ ext \in ExtChoices
        /\ unk \in BOOLEAN
        \* canonical representative when there is no entry
        /\ (errState \in {"absent", "null", "empty"} =>
              /\ msg = "boom" /\ loc.st = "absent" /\ path.st = "absent" /\ ext.st = "absent" /\ ~unk)

Next == UNCHANGED vars
Spec == Init /\ [][Next]_vars

Entry == ErrorEntry(msg, loc, path, ext, unk)
Second == ErrorEntry("second", CHOOSE c \in LocationsChoices : c.st = "one",
                     CHOOSE c \in PathChoices : c.st = "names",
                     CHOOSE c \in ExtChoices : c.st = "absent", FALSE)

ErrList == CASE errState = "one" -> <<Entry>> [] errState = "two" -> <<Entry, Second>> [] OTHER -> <<>>

ErrorsMember(which) ==
  CASE errState = "absent" -> <<>>
    [] errState = "null"   -> <<KV("errors", Null)>>
    [] OTHER -> <<KV("errors", Lst([k \in 1..Len(ErrList) |-> IF which = "v" THEN ErrList[k].v ELSE ErrList[k].e]))>>

Body   == Obj(Member("data", data) \o ErrorsMember("v") \o Member("extensions", topExt) \o Unknown(topUnk))
Expect == Obj(Member("data", data) \o ErrorsMember("e") \o Member("extensions", topExt))

\* the Display line is total and well-formed for every entry (model-level sanity)
DisplayShape == \A k \in 1..Len(ErrList) : Len(ErrList[k].display) >= 5

Case == [body |-> Body, expect |-> Expect,
         displays |-> [k \in 1..Len(ErrList) |-> ErrList[k].display],
         dataState |-> data.st, errState |-> errState]

Emit == PrintT(<<"CASE", ToJson(Case)>>)
=============================================================================
