SPECIFICATION Spec
CONSTANT N = 3
INVARIANTS DecisionSound DecisionExact Emit
CHECK_DEADLOCK FALSE
