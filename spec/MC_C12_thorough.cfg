SPECIFICATION Spec
CONSTANTS DoubleMembers = TRUE
 N = 3
INVARIANTS DecisionSound DecisionExact Emit
CHECK_DEADLOCK FALSE
