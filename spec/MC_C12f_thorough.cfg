SPECIFICATION Spec
CONSTANTS N = 3
 WithInline = FALSE
 Transitive = TRUE
INVARIANTS FiniteSize Emit
CHECK_DEADLOCK FALSE
