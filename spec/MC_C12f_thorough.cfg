SPECIFICATION Spec
CONSTANTS N = 3
 Transitive = TRUE
INVARIANTS FiniteSize Emit
CHECK_DEADLOCK FALSE
