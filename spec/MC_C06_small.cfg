SPECIFICATION Spec
CONSTANTS
  MaxFrags = 1
  MaxNodes = 2
  FieldPool = {"me", "pet", "name", "id", "changed", "rename", "best"}
  Extended = {}
INVARIANTS Lemma Emit
CHECK_DEADLOCK FALSE
