------------------------------ MODULE MC_C16a ------------------------------
(* C16 (a): every value class x the two ID helper functions.                 *)
EXTENDS IdCoercion, Json, TLC
VARIABLE v
Init == v \in ValueClasses
Next == UNCHANGED v
Spec == Init /\ [][Next]_v
\* the two expectations agree wherever the value is not null
Consistent == v # Null => ExpectNonNull(v) = ExpectNullable(v)
Emit == PrintT(<<"CASE", ToJson([value |-> v, nonnull |-> ExpectNonNull(v), nullable |-> ExpectNullable(v)])>>)
=============================================================================
