SPECIFICATION Spec
CONSTANT MaxDepth = 3
INVARIANT Emit
CHECK_DEADLOCK FALSE
