SPECIFICATION Spec
CONSTANTS MaxDepth = 3
 Fuel = 3
 FlipFuel = 2
INVARIANT Emit
CHECK_DEADLOCK FALSE
