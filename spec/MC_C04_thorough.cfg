SPECIFICATION Spec
CONSTANTS MaxDepth = 3
 Fuel = 2
 FlipFuel = 1
INVARIANT Emit
CHECK_DEADLOCK FALSE
