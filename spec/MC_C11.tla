------------------------------- MODULE MC_C11 -------------------------------
(***************************************************************************)
(* C11: binary search over the keyword table, one iteration per action,    *)
(* for every needle of the name pool; and the enumeration of               *)
(* (name, position, normalization) cases for the real generator.           *)
(***************************************************************************)
EXTENDS Names, Json, TLC

CONSTANT Table      \* the table the search runs over (CodeTable, or a mutated one)

SwappedTable == [i \in 1..Len(CodeTable) |-> IF i = 12 THEN CodeTable[13] ELSE IF i = 13 THEN CodeTable[12] ELSE CodeTable[i]]

Positions == {"field", "listfield", "alias", "aliascase", "variable", "inputfield", "recinputfield", "oneoffield", "enumvalue"}

VARIABLES needle, lo, hi, pc, found
vars == <<needle, lo, hi, pc, found>>

\* slice::binary_search: half-open interval [lo, hi) over 0-based indices
Init == /\ needle \in Pool
        /\ lo = 0 /\ hi = Len(Table)
        /\ pc = "search" /\ found = FALSE

Step == /\ pc = "search"
        /\ IF lo >= hi THEN /\ pc' = "done" /\ UNCHANGED <<lo, hi, found>>
           ELSE LET mid == lo + ((hi - lo) \div 2)
                    x == Table[mid + 1]
                IN  IF x = needle THEN /\ found' = TRUE /\ pc' = "done" /\ UNCHANGED <<lo, hi>>
                    ELSE IF Less(x, needle) THEN /\ lo' = mid + 1 /\ UNCHANGED <<hi, pc, found>>
                    ELSE /\ hi' = mid /\ UNCHANGED <<lo, pc, found>>
        /\ UNCHANGED needle

Spec == Init /\ [][Step]_vars /\ WF_vars(Step)

\* the table is what the reference says and is sorted: the two facts the search depends on
TableComplete == Range(Table) = Keywords
TableSorted == Sorted(Table)
\* the search finds exactly the members
SearchCorrect == pc = "done" => (found <=> needle \in Range(Table))
\* hence: escaped iff keyword
EscapesExactlyKeywords == pc = "done" => (found <=> needle \in Keywords)
Terminates == <>(pc = "done")

Case == [name |-> needle, keyword |-> needle \in Keywords, rust |-> Escape(needle)]
Emit == (pc = "search" /\ lo = 0 /\ hi = Len(Table)) => PrintT(<<"NAME", ToJson(Case)>>)
=============================================================================
