---------------------------- MODULE GraphqlClient ----------------------------
(***************************************************************************)
(* One generation call as a pipeline of stages (composition of the         *)
(* functional core):                                                       *)
(*    Load query (cache) -> Load schema (cache) -> Resolve + Validate      *)
(*      -> Select operation(s) -> Render one module per selected operation *)
(*      -> Return tokens                                                   *)
(* An error at any stage short-circuits: no later stage runs, no tokens.   *)
(* The outcome of the call is a function of the abstract inputs:           *)
(*    loadable, valid (Gql!Valid), the operation names, the request.       *)
(* This module is the place where new pipeline behaviour is specified      *)
(* first; it is bound to the implementation by stage events (Trace_Pipeline)*)
(***************************************************************************)
EXTENDS OpSelect, TLC

VARIABLES ops, requested, normalization, mode, loadable, valid,     \* the abstract inputs
          stage, selected, rendered, outcome

gcvars == <<ops, requested, normalization, mode, loadable, valid, stage, selected, rendered, outcome>>
inputs == <<ops, requested, normalization, mode, loadable, valid>>

Sel == Select(ops, requested, normalization, mode)

\* which operations a successful selection renders, in document order
SelectedOps ==
  IF Sel.kind = "one" THEN <<ops[CHOOSE i \in Sel.which : \A j \in Sel.which : i <= j]>>
  ELSE IF Sel.kind \in {"all", "unspecified"} THEN ops
  ELSE <<>>

Load ==
  /\ stage = "start"
  /\ IF loadable THEN stage' = "loaded" /\ UNCHANGED outcome
     ELSE stage' = "done" /\ outcome' = "panic"          \* unreadable / unparsable input
  /\ UNCHANGED <<inputs, selected, rendered>>

Resolve ==
  /\ stage = "loaded"
  /\ IF valid THEN stage' = "resolved" /\ UNCHANGED outcome
     ELSE stage' = "done" /\ outcome' = "err"
  /\ UNCHANGED <<inputs, selected, rendered>>

SelectOps ==
  /\ stage = "resolved"
  /\ IF Sel.kind = "notfound"
     THEN stage' = "done" /\ outcome' = "err" /\ UNCHANGED selected
     ELSE stage' = "selected" /\ selected' = SelectedOps /\ UNCHANGED outcome
  /\ UNCHANGED <<inputs, rendered>>

RenderNext ==
  /\ stage = "selected"
  /\ Len(rendered) < Len(selected)
  /\ rendered' = Append(rendered, selected[Len(rendered) + 1])
  /\ UNCHANGED <<inputs, stage, selected, outcome>>

Return ==
  /\ stage = "selected"
  /\ Len(rendered) = Len(selected)
  /\ stage' = "done" /\ outcome' = "ok"
  /\ UNCHANGED <<inputs, selected, rendered>>

GCNext == Load \/ Resolve \/ SelectOps \/ RenderNext \/ Return

GCInit ==
  /\ stage = "start" /\ selected = <<>> /\ rendered = <<>> /\ outcome = "none"

\* stage order and short-circuiting
RenderedIsPrefix == Len(rendered) <= Len(selected) /\ \A i \in 1..Len(rendered) : rendered[i] = selected[i]
OkMeansAllRendered == outcome = "ok" => (rendered = selected /\ valid /\ loadable)
ErrorMeansNothingRendered == outcome \in {"err", "panic"} => rendered = <<>>
OutcomeIsFunctionOfInputs ==
  stage = "done" => outcome = (IF ~loadable THEN "panic" ELSE IF ~valid THEN "err"
                               ELSE IF Sel.kind = "notfound" THEN "err" ELSE "ok")
=============================================================================
