----------------------------- MODULE CliGenerate -----------------------------
(***************************************************************************)
(* `graphql-client generate` (property C19) as a small protocol between    *)
(* the command line, the library and the file system:                      *)
(*    ParseFlags -> Generate (ok | error) -> [Format] -> Write -> Exit     *)
(* Reference: the command writes exactly what the library produces for the *)
(* options the flags denote - header, then the modules - to                *)
(* <query file stem>.rs in the output directory, or beside the query file; *)
(* on any generation error it exits non-zero and the file system is        *)
(* unchanged.                                                              *)
(***************************************************************************)
EXTENDS Naturals, Sequences, FiniteSets, TLC

\* ---- what the user asks for ----------------------------------------------
Flags(vd, rd, dep, vis, csm, other, ext, sel) ==
  [variables_derives |-> vd, response_derives |-> rd, deprecation |-> dep, module_visibility |-> vis,
   custom_scalars_module |-> csm, fragments_other_variant |-> other, external_enums |-> ext,
   selected_operation |-> sel]

FlagValues ==
  [ variables_derives |-> {"", "Debug,Clone"},
    response_derives |-> {"", "Debug,PartialEq"},
    deprecation |-> {"", "allow", "warn", "deny"},
    module_visibility |-> {"", "pub", "inherited", "crate"},
    custom_scalars_module |-> {"", "crate::scalars"},
    fragments_other_variant |-> BOOLEAN,
    external_enums |-> {"", "Color", "Color Mood"},
    selected_operation |-> {"", "OpA", "OpB"} ]

\* the library options a flag set denotes ("" = option not set; the CLI's own default visibility is pub)
LibraryOptions(f) ==
  [ mode |-> "cli",
    variables_derives |-> f.variables_derives,
    response_derives |-> f.response_derives,
    deprecation |-> f.deprecation,
    module_visibility |-> IF f.module_visibility = "" THEN "pub" ELSE f.module_visibility,
    custom_scalars_module |-> f.custom_scalars_module,
    fragments_other_variant |-> f.fragments_other_variant,
    extern_enums |-> f.external_enums,
    operation_name |-> f.selected_operation ]

\* "link.graphql": the query path (and the schema path) given on the command line are symbolic links to
\* files with other names and no extension in another directory; names and placement follow the GIVEN path
QueryNames == {"ops.graphql", "user.query.graphql", "nested/dir/ops.gql", "link.graphql"}
\* the schema file is named with each extension the library reads as SDL (the CLI must not be stricter)
SchemaNameFor == ("ops.graphql" :> "schema.graphql") @@ ("user.query.graphql" :> "schema.graphqls") @@
                 ("nested/dir/ops.gql" :> "schema.gql") @@ ("link.graphql" :> "schema.graphql")
\* file name with the last extension replaced by rs
RsName == ("ops.graphql" :> "ops.rs") @@ ("user.query.graphql" :> "user.query.rs") @@ ("nested/dir/ops.gql" :> "ops.rs")
          @@ ("link.graphql" :> "link.rs")
BesideQuery == ("ops.graphql" :> "ops.rs") @@ ("user.query.graphql" :> "user.query.rs") @@
               ("nested/dir/ops.gql" :> "nested/dir/ops.rs") @@ ("link.graphql" :> "link.rs")

\* (an output directory that does not exist is not part of the property: creating it or failing are both fine)
Placement == {"beside", "outdir"}
\* "validWide": a valid document whose generated code is several hundred kilobytes (larger than any pipe buffer)
Programs == {"valid", "validWide", "invalidQuery", "missingQuery", "badSchema"}

Destination(qname, placement) ==
  IF placement = "beside" THEN "q/" \o BesideQuery[qname] ELSE "out/" \o RsName[qname]

\* ---- the protocol ----------------------------------------------------------
VARIABLES flags, qname, placement, formatting, program,   \* the request
          stage, written, exit                              \* written: set of [path, content]

cgvars == <<flags, qname, placement, formatting, program, stage, written, exit>>

Init == /\ flags \in [variables_derives : FlagValues.variables_derives, response_derives : FlagValues.response_derives,
                      deprecation : FlagValues.deprecation, module_visibility : FlagValues.module_visibility,
                      custom_scalars_module : FlagValues.custom_scalars_module,
                      fragments_other_variant : FlagValues.fragments_other_variant,
                      external_enums : FlagValues.external_enums, selected_operation : FlagValues.selected_operation]
        /\ qname \in QueryNames
        /\ placement \in Placement
        /\ formatting \in BOOLEAN
        /\ program \in Programs
        /\ stage = "parsed"
        /\ written = {}
        /\ exit = 99

GenerationFails == program \notin {"valid", "validWide"}

Generate == /\ stage = "parsed"
            /\ IF GenerationFails THEN stage' = "failed" ELSE stage' = "generated"
            /\ UNCHANGED <<flags, qname, placement, formatting, program, written, exit>>

Format == /\ stage = "generated"
          /\ stage' = "formatted"
          /\ UNCHANGED <<flags, qname, placement, formatting, program, written, exit>>

Write == /\ stage = "formatted"
         /\ IF placement = "outdirMissing"
            THEN /\ stage' = "failed" /\ UNCHANGED written        \* the file cannot be created
            ELSE /\ written' = {[path |-> Destination(qname, placement),
                                 content |-> IF formatting THEN "rustfmt(header+library)" ELSE "header+library"]}
                 /\ stage' = "written"
         /\ UNCHANGED <<flags, qname, placement, formatting, program, exit>>

Exit == /\ stage \in {"written", "failed"} /\ exit = 99
        /\ exit' = IF stage = "written" THEN 0 ELSE 1
        /\ UNCHANGED <<flags, qname, placement, formatting, program, stage, written>>

Next == Generate \/ Format \/ Write \/ Exit
Spec == Init /\ [][Next]_cgvars /\ WF_cgvars(Next)

Finished == exit # 99
\* C19 in terms of the protocol
SuccessWritesOneFile == (Finished /\ exit = 0) => Cardinality(written) = 1
FailureWritesNothing == (Finished /\ exit # 0) => written = {}
ExitReflectsOutcome  == Finished => (exit = 0 <=> (~GenerationFails /\ placement # "outdirMissing"))
Terminates == <>Finished
=============================================================================
