SPECIFICATION Spec
CONSTANTS
  MaxFrags = 3
  MaxNodes = 6
  FieldPool = {}
  Extended = {}
INVARIANTS Emit
CHECK_DEADLOCK FALSE
