------------------------------ MODULE Trace_Suite ------------------------------
(***************************************************************************)
(* Cache.tla against the executions of the repository's OWN test suite:    *)
(* every integration-test crate of graphql_client is compiled with the     *)
(* hooked derive; all derives of one crate run in one rustc process, one   *)
(* after the other, so each process is a one-thread history of calls over  *)
(* the fixture files (first use of a path loads, every later use hits).    *)
(* The universe (files with content ids, calls) is read from a file.       *)
(***************************************************************************)
EXTENDS TraceCache

Universe == ndJsonDeserialize(IOEnv.UNIVERSE)[1]
SuiteFiles == Universe.files
SuiteCalls == Universe.calls
SuiteThreads == {"t0"}
SuitePlans == {}
=============================================================================
