-------------------------------- MODULE Names --------------------------------
(***************************************************************************)
(* GraphQL names versus Rust identifiers (properties C11, C10).            *)
(*                                                                         *)
(* Keywords: every strict and reserved keyword of the 2015-2021 editions   *)
(* plus the contextual `union` (52 words), from the Rust Reference - not   *)
(* from the implementation.  A GraphQL name that is a keyword cannot be    *)
(* used as an identifier; the generator appends `_` and must keep the      *)
(* GraphQL name on the wire.                                               *)
(*                                                                         *)
(* The implementation finds keywords by BINARY SEARCH over a table that is *)
(* written out sorted by hand; the search is modelled below one iteration  *)
(* per action.  Rust compares strings bytewise; TLA+ has no order on       *)
(* strings, so the byte order of the name pool is given explicitly.        *)
(***************************************************************************)
EXTENDS Naturals, Sequences, FiniteSets

StrictKeywords == {"as", "break", "const", "continue", "crate", "else", "enum", "extern", "false", "fn",
    "for", "if", "impl", "in", "let", "loop", "match", "mod", "move", "mut", "pub", "ref",
    "return", "self", "Self", "static", "struct", "super", "trait", "true", "type", "unsafe",
    "use", "where", "while", "async", "await", "dyn"}
ReservedKeywords == {"abstract", "become", "box", "do", "final", "macro", "override", "priv", "typeof",
    "unsized", "virtual", "yield", "try", "union"}
Keywords == StrictKeywords \cup ReservedKeywords

\* other naming styles that have to survive
Styles == {"camelCase", "snake_case", "PascalCase", "SCREAMING_CASE", "_leading", "trailing_",
    "with1digit", "x", "ID", "iD2x", "kebabless", "async_", "Type", "MATCH",
    \* names that case conversion turns into non-identifiers (it strips leading underscores): defect D28
    "_", "_1", "_9lives"}
Pool == Keywords \cup Styles

\* all names of the pool in byte order (str::cmp)
ByteOrder ==
  <<"ID", "MATCH", "PascalCase", "SCREAMING_CASE", "Self", "Type", "_", "_1", "_9lives", "_leading", "abstract",
    "as", "async", "async_", "await", "become", "box", "break", "camelCase", "const",
    "continue", "crate", "do", "dyn", "else", "enum", "extern", "false", "final", "fn", "for",
    "iD2x", "if", "impl", "in", "kebabless", "let", "loop", "macro", "match", "mod", "move",
    "mut", "override", "priv", "pub", "ref", "return", "self", "snake_case", "static",
    "struct", "super", "trailing_", "trait", "true", "try", "type", "typeof", "union",
    "unsafe", "unsized", "use", "virtual", "where", "while", "with1digit", "x", "yield">>
Pos(s) == CHOOSE i \in 1..Len(ByteOrder) : ByteOrder[i] = s
Less(a, b) == Pos(a) < Pos(b)

\* the keyword table of codegen/shared.rs (RUST_KEYWORDS), as written there
CodeTable ==
  <<"Self", "abstract", "as", "async", "await", "become", "box", "break", "const", "continue",
    "crate", "do", "dyn", "else", "enum", "extern", "false", "final", "fn", "for", "if",
    "impl", "in", "let", "loop", "macro", "match", "mod", "move", "mut", "override", "priv",
    "pub", "ref", "return", "self", "static", "struct", "super", "trait", "true", "try",
    "type", "typeof", "union", "unsafe", "unsized", "use", "virtual", "where", "while",
    "yield">>

Sorted(t) == \A i \in 1..(Len(t) - 1) : Less(t[i], t[i + 1])
Range(t) == {t[i] : i \in 1..Len(t)}

\* reference: the Rust identifier used for a GraphQL name that is already in the right case
\* (after case conversion a name can be empty, a lone underscore or start with a digit: those get an
\* underscore in front - `snake_case("_1") = "1"` is written `_1`, `snake_case("_") = ""` is written `__`)
DigitFirst == {"1", "9lives"}
Escape(n) == IF n \in {"", "_"} THEN "__"
             ELSE IF n \in DigitFirst THEN "_" \o n
             ELSE IF n \in Keywords THEN n \o "_" ELSE n
=============================================================================
