------------------------------- MODULE Defaults -------------------------------
(***************************************************************************)
(* Default values of operation variables (growth beyond the listed         *)
(* properties; serves C04 / C02).  For a variable `$v: T = literal` the     *)
(* generated `Variables::default_v()` returns the literal as a value of the *)
(* variable's Rust type: Some(value) when T is nullable, value when T is    *)
(* non-null; members an input-object literal does not mention are None.     *)
(* Supported literals (README, repository fixtures): built-in scalars that  *)
(* are not lists, and input-object literals over them.                      *)
(***************************************************************************)
EXTENDS Naturals, Sequences, JsonVal

\* literal: [text (GraphQL source), value (abstract JSON)]
Lit(text, value) == [text |-> text, value |-> value]

Literals(base) ==
  CASE base = "Int"     -> {Lit("3", Int("3")), Lit("-1", Int("-1")), Lit("0", Int("0")), Lit("2147483647", Int("2147483647"))}
    [] base = "Float"   -> {Lit("1.5", Sc("float", "1.5")), Lit("-0.25", Sc("float", "-0.25")), Lit("1e3", Sc("float", "1000.0"))}
    [] base = "String"  -> {Lit("$q o, hai $q", Str(" o, hai ")), Lit("$q$q", Str("")),
                            Lit("$q say \\$q hi \\$q \\\\ end $q", Str(" say $q hi $q \\ end ")),
                            Lit("$q h\\u00e9llo $q", Str(" héllo "))}
    [] base = "Boolean" -> {Lit("true", Sc("bool", "true")), Lit("false", Sc("bool", "false"))}
    [] base = "ID"      -> {Lit("$qabc$q", Str("abc")), Lit("$q007$q", Str("007"))}
    [] base = "Message" -> {Lit("{ to: { email: $qrosa@example.com$q }, text: $qhi$q }",
                                Obj(<<KV("to", Obj(<<KV("email", Str("rosa@example.com")), KV("n", Null)>>)),
                                      KV("text", Str("hi")), KV("urgent", Null)>>)),
                            Lit("{ to: { email: $qx$q, n: 2 }, urgent: true }",
                                Obj(<<KV("to", Obj(<<KV("email", Str("x")), KV("n", Int("2"))>>)),
                                      KV("text", Null), KV("urgent", Sc("bool", "true"))>>))}
    \* member names that are a Rust keyword / not snake_case: the literal is written with the GraphQL names
    [] base = "Awkward" -> {Lit("{ type: 3, camelCase: $qhi$q }",
                                Obj(<<KV("type", Int("3")), KV("camelCase", Str("hi")), KV("loop", Null)>>)),
                            Lit("{ loop: true }",
                                Obj(<<KV("type", Null), KV("camelCase", Null), KV("loop", Sc("bool", "true"))>>))}
    \* a recursive input type (its recursive member is boxed in the generated struct)
    [] base = "Tree"    -> {Lit("{ v: 1 }", Obj(<<KV("v", Int("1")), KV("next", Null)>>)),
                            Lit("{ v: 1, next: { v: 2 } }",
                                Obj(<<KV("v", Int("1")), KV("next", Obj(<<KV("v", Int("2")), KV("next", Null)>>))>>))}
    \* an input type whose name is not UpperCamelCase (renamed under normalization = rust)
    [] base = "snake_in" -> {Lit("{ a: 1 }", Obj(<<KV("a", Int("1"))>>))}
Bases == {"Int", "Float", "String", "Boolean", "ID", "Message", "Awkward", "Tree", "snake_in"}
=============================================================================
