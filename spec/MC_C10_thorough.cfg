SPECIFICATION Spec
CONSTANT MaxValues = 3
INVARIANTS RoundTrip Separates OpenWorld Emit
CHECK_DEADLOCK FALSE
