-------------------------------- MODULE Gql --------------------------------
(***************************************************************************)
(* Abstract GraphQL: the universe schema family, query documents in the    *)
(* implementation's flat shape (selection table with parent index), and    *)
(* REFERENCE VALIDITY - the rule catalogue of property C06, written from   *)
(* the GraphQL specification, not from the code.                           *)
(***************************************************************************)
EXTENDS Naturals, Sequences, FiniteSets, SequencesExt, TypeExpr

----------------------------------------------------------------------------
(* Schema.  A schema is a function  type name -> record                    *)
(*   [kind, fields (sequence), ifaces (set), members (sequence), values]   *)
(* plus the root operation types.  Fields: [name, q, base, dep] where dep  *)
(* is "none", "bare" (deprecated without reason) or a reason atom.         *)

Fd(n, q, b)     == [name |-> n, q |-> q, base |-> b, dep |-> "none"]
FdD(n, q, b, d) == [name |-> n, q |-> q, base |-> b, dep |-> d]

Ty(k, fs, is, ms, vs) == [kind |-> k, fields |-> fs, ifaces |-> is, members |-> ms, values |-> vs]

N0 == <<>>
NR == <<"R">>
NL == <<"L">>
LR == <<"L", "R">>          \* [T!]
RL == <<"R", "L">>          \* [T]!
RLR == <<"R", "L", "R">>    \* [T!]!
LLR == <<"L", "L", "R">>    \* [[T!]]

\* Order in which types are written to the schema file.
UniverseOrder == <<"Date", "Color", "Node", "Named", "Lonely", "Person", "Robot", "Cat",
                   "Pet", "Any", "RootQ", "RootM", "RootS">>

Universe ==
  [ Date   |-> Ty("SCALAR", <<>>, {}, <<>>, <<>>),
    Color  |-> Ty("ENUM", <<>>, {}, <<>>, <<"RED", "GREEN", "blue">>),
    Node   |-> Ty("INTERFACE", <<Fd("id", NR, "ID"), Fd("name", N0, "String")>>, {}, <<>>, <<>>),
    Named  |-> Ty("INTERFACE", <<Fd("name", N0, "String")>>, {}, <<>>, <<>>),
    Lonely |-> Ty("INTERFACE", <<Fd("x", N0, "Int")>>, {}, <<>>, <<>>),
    Person |-> Ty("OBJECT",
                  <<Fd("id", NR, "ID"), Fd("name", N0, "String"), Fd("age", NR, "Int"),
                    Fd("score", N0, "Float"), Fd("active", NR, "Boolean"),
                    Fd("tags", RLR, "String"), Fd("grid", LLR, "Int"),
                    Fd("best", N0, "Person"), Fd("friends", LR, "Person"),
                    Fd("pet", N0, "Pet"), Fd("pets", RLR, "Pet"), Fd("node", N0, "Node"),
                    Fd("color", N0, "Color"), Fd("colors", LR, "Color"),
                    Fd("born", N0, "Date"), Fd("serial", N0, "ID"),
                    FdD("old", N0, "Int", "use age"), FdD("older", NR, "String", "bare"),
                    Fd("lonely", N0, "Lonely")>>,
                  {"Node", "Named"}, <<>>, <<>>),
    Robot  |-> Ty("OBJECT",
                  <<Fd("id", NR, "ID"), Fd("name", N0, "String"), Fd("model", NR, "String"),
                    Fd("serial", N0, "ID"), Fd("owner", N0, "Person")>>,
                  {"Node"}, <<>>, <<>>),
    Cat    |-> Ty("OBJECT",
                  \* (Cat narrows the nullability of the interface field: Named.name is nullable)
                  <<Fd("name", NR, "String"), Fd("lives", NR, "Int"), Fd("owner", N0, "Person")>>,
                  {"Named"}, <<>>, <<>>),
    Pet    |-> Ty("UNION", <<>>, {}, <<"Cat", "Robot">>, <<>>),
    Any    |-> Ty("UNION", <<>>, {}, <<"Person", "Robot", "Cat">>, <<>>),
    RootQ  |-> Ty("OBJECT",
                  <<Fd("me", NR, "Person"), Fd("node", N0, "Node"), Fd("nodes", RLR, "Node"),
                    Fd("pet", N0, "Pet"), Fd("anys", NL, "Any"), Fd("people", LR, "Person"),
                    Fd("named", N0, "Named"), Fd("version", N0, "Int")>>,
                  {}, <<>>, <<>>),
    RootM  |-> Ty("OBJECT", <<Fd("rename", N0, "Person"), Fd("bump", NR, "Int")>>, {}, <<>>, <<>>),
    RootS  |-> Ty("OBJECT", <<Fd("changed", N0, "Any"), Fd("tick", N0, "Int")>>, {}, <<>>, <<>>) ]

BuiltinScalars == {"Int", "Float", "String", "Boolean", "ID"}

\* root operation types; a schema variant may lack mutation / subscription
Roots(variant) ==
  [query |-> "RootQ",
   mutation |-> IF variant = "noMutation" THEN "" ELSE "RootM",
   subscription |-> IF variant = "noSubscription" THEN "" ELSE "RootS"]

KindOf(S, t) == IF t \in BuiltinScalars THEN "SCALAR"
                ELSE IF t \in DOMAIN S THEN S[t].kind ELSE "?"
IsComposite(S, t) == KindOf(S, t) \in {"OBJECT", "INTERFACE", "UNION"}
IsAbstract(S, t)  == KindOf(S, t) \in {"INTERFACE", "UNION"}
IsLeaf(S, t)      == KindOf(S, t) \in {"SCALAR", "ENUM"}

SeqRange(s) == {s[i] : i \in 1..Len(s)}

Objects(S) == {t \in DOMAIN S : S[t].kind = "OBJECT"}

\* the set of object types a value of static type t can have at run time
PossibleTypes(S, t) ==
  CASE KindOf(S, t) = "OBJECT"    -> {t}
    [] KindOf(S, t) = "INTERFACE" -> {o \in Objects(S) : t \in S[o].ifaces}
    [] KindOf(S, t) = "UNION"     -> SeqRange(S[t].members)
    [] OTHER                      -> {}

Overlaps(S, a, b) == PossibleTypes(S, a) \cap PossibleTypes(S, b) # {}

HasField(S, t, n) == /\ KindOf(S, t) \in {"OBJECT", "INTERFACE"}
                     /\ \E i \in 1..Len(S[t].fields) : S[t].fields[i].name = n
FieldOf(S, t, n)  == LET i == CHOOSE i \in 1..Len(S[t].fields) : S[t].fields[i].name = n
                     IN  S[t].fields[i]

----------------------------------------------------------------------------
(* Documents.                                                              *)
(*   defs  : sequence of [k, name, kind, on]                               *)
(*           k = "op"  : kind in {"query","mutation","subscription"},      *)
(*                       name = "" for an anonymous operation,             *)
(*                       kind = "bare" for the `{ ... }` shorthand         *)
(*           k = "frag": on = type condition                               *)
(*   nodes : sequence of [d, p, k, name, alias, on]                        *)
(*           d = index of the definition the node belongs to               *)
(*           p = parent node index, 0 for the definition's root set        *)
(*           k in {"field","typename","inline","spread"}                   *)
(*           name = field name / fragment name; alias = "" if none         *)
(* Sibling order is index order (as in the implementation's Vec).          *)

OpDef(kind, name) == [k |-> "op", name |-> name, kind |-> kind, on |-> ""]
FragDef(name, on) == [k |-> "frag", name |-> name, kind |-> "", on |-> on]
FieldNode(d, p, name, alias) == [d |-> d, p |-> p, k |-> "field", name |-> name, alias |-> alias, on |-> ""]
TypenameNode(d, p)           == [d |-> d, p |-> p, k |-> "typename", name |-> "__typename", alias |-> "", on |-> ""]
InlineNode(d, p, on)         == [d |-> d, p |-> p, k |-> "inline", name |-> "", alias |-> "", on |-> on]
SpreadNode(d, p, name)       == [d |-> d, p |-> p, k |-> "spread", name |-> name, alias |-> "", on |-> ""]

ChildSet(doc, d, p) == {i \in 1..Len(doc.nodes) : doc.nodes[i].d = d /\ doc.nodes[i].p = p}
ChildSeq(doc, d, p) == SetToSortSeq(ChildSet(doc, d, p), <)

FragIndex(doc, name) ==
  IF \E i \in 1..Len(doc.defs) : doc.defs[i].k = "frag" /\ doc.defs[i].name = name
  THEN CHOOSE i \in 1..Len(doc.defs) : doc.defs[i].k = "frag" /\ doc.defs[i].name = name
  ELSE 0

RootTypeOfKind(roots, kind) ==
  CASE kind \in {"query", "bare"} -> roots.query
    [] kind = "mutation"         -> roots.mutation
    [] kind = "subscription"     -> roots.subscription
    [] OTHER                     -> ""

DefType(doc, roots, d) == IF doc.defs[d].k = "frag" THEN doc.defs[d].on
                          ELSE RootTypeOfKind(roots, doc.defs[d].kind)

\* Static type in whose scope node i is selected ("?" when it cannot be determined)
RECURSIVE ScopeType(_, _, _, _)
TargetType(S, doc, roots, i) ==
  LET n == doc.nodes[i] IN
  CASE n.k = "inline" -> n.on
    [] n.k = "field"  -> LET pt == ScopeType(S, doc, roots, i)
                         IN  IF HasField(S, pt, n.name) THEN FieldOf(S, pt, n.name).base ELSE "?"
    [] OTHER          -> "?"
ScopeType(S, doc, roots, i) ==
  LET n == doc.nodes[i] IN
  IF n.p = 0 THEN DefType(doc, roots, n.d) ELSE TargetType(S, doc, roots, n.p)

\* does the selection set (d,p) of static type t select __typename, directly or through
\* spreads of fragments on the same type?  `seen` makes the search terminate on cycles.
RECURSIVE HasTypename(_, _, _, _, _)
HasTypename(doc, d, p, t, seen) ==
  \E i \in ChildSet(doc, d, p) :
     \/ doc.nodes[i].k = "typename"
     \/ /\ doc.nodes[i].k = "spread"
        /\ LET f == FragIndex(doc, doc.nodes[i].name)
           IN  /\ f # 0
               /\ f \notin seen
               /\ doc.defs[f].on = t
               /\ HasTypename(doc, f, 0, t, seen \cup {f})

(***************************************************************************)
(* The rule catalogue.  Each rule is a predicate "the document does NOT    *)
(* break this rule"; Valid is their conjunction.                           *)
(***************************************************************************)
NodeIds(doc) == 1..Len(doc.nodes)

RuleFieldsExist(S, doc, roots) ==
  \A i \in NodeIds(doc) : doc.nodes[i].k = "field" =>
     HasField(S, ScopeType(S, doc, roots, i), doc.nodes[i].name)

RuleLeafComposite(S, doc, roots) ==
  \A i \in NodeIds(doc) : doc.nodes[i].k = "field" =>
     LET t == TargetType(S, doc, roots, i)
         kids == ChildSet(doc, doc.nodes[i].d, i)
     IN  /\ IsLeaf(S, t) => kids = {}
         /\ IsComposite(S, t) => kids # {}

RuleOnlyTypenameOnUnion(S, doc, roots) ==
  \A i \in NodeIds(doc) : doc.nodes[i].k = "field" =>
     KindOf(S, ScopeType(S, doc, roots, i)) # "UNION"

RuleFragmentsDefined(doc) ==
  \A i \in NodeIds(doc) : doc.nodes[i].k = "spread" => FragIndex(doc, doc.nodes[i].name) # 0

RuleTypeConditionsExist(S, doc) ==
  /\ \A i \in NodeIds(doc) : doc.nodes[i].k = "inline" => IsComposite(S, doc.nodes[i].on)
  /\ \A d \in 1..Len(doc.defs) : doc.defs[d].k = "frag" => IsComposite(S, doc.defs[d].on)

RuleSpreadsPossible(S, doc, roots) ==
  \A i \in NodeIds(doc) :
     /\ doc.nodes[i].k = "inline" =>
           Overlaps(S, doc.nodes[i].on, ScopeType(S, doc, roots, i))
     /\ (doc.nodes[i].k = "spread" /\ FragIndex(doc, doc.nodes[i].name) # 0) =>
           Overlaps(S, doc.defs[FragIndex(doc, doc.nodes[i].name)].on, ScopeType(S, doc, roots, i))

\* graphql-client's own rule: abstract selections must select __typename
RuleTypenamePresent(S, doc, roots) ==
  /\ \A i \in NodeIds(doc) :
        (doc.nodes[i].k = "field" /\ IsAbstract(S, TargetType(S, doc, roots, i))) =>
            HasTypename(doc, doc.nodes[i].d, i, TargetType(S, doc, roots, i), {})
  /\ \A d \in 1..Len(doc.defs) :
        (doc.defs[d].k = "frag" /\ IsAbstract(S, doc.defs[d].on)) =>
            HasTypename(doc, d, 0, doc.defs[d].on, {d})

\* number of fields a selection set contributes to its parent object, through inline fragments and
\* fragment spreads (each fragment counted once)
RECURSIVE RootFieldCount(_, _, _, _)
RootFieldCount(doc, d, p, seen) ==
  LET kids == ChildSeq(doc, d, p)
      RECURSIVE Sum(_, _)
      Sum(j, sn) ==
        IF j > Len(kids) THEN 0
        ELSE LET n == doc.nodes[kids[j]] IN
             CASE n.k \in {"field", "typename"} -> 1 + Sum(j + 1, sn)
               [] n.k = "inline" -> RootFieldCount(doc, d, kids[j], sn) + Sum(j + 1, sn)
               [] OTHER -> LET f == FragIndex(doc, n.name) IN
                           IF f = 0 \/ f \in sn THEN Sum(j + 1, sn)
                           ELSE RootFieldCount(doc, f, 0, sn \cup {f}) + Sum(j + 1, sn \cup {f})
  IN  Sum(1, seen)

\* exactly one root field, however the root selection is written (one item, and one field behind it)
RuleSubscriptionSingleRoot(doc) ==
  \A d \in 1..Len(doc.defs) :
     (doc.defs[d].k = "op" /\ doc.defs[d].kind = "subscription") =>
        /\ Cardinality(ChildSet(doc, d, 0)) = 1
        /\ RootFieldCount(doc, d, 0, {}) = 1

\* `__typename` is a scalar (no sub-selection: GraphQL) and is the tag of the generated enums, so the
\* generator requires it under its own name (no alias: graphql-client's own rule, defects D30 / D31)
RuleTypenameNoSelection(doc) ==
  \A i \in NodeIds(doc) : doc.nodes[i].k = "typename" => ChildSet(doc, doc.nodes[i].d, i) = {}
RuleTypenameNotAliased(doc) ==
  \A i \in NodeIds(doc) : doc.nodes[i].k = "typename" => doc.nodes[i].alias = ""

RuleOperationsNamed(doc) ==
  \A d \in 1..Len(doc.defs) : doc.defs[d].k = "op" => (doc.defs[d].name # "" /\ doc.defs[d].kind # "bare")

RuleRootTypesExist(doc, roots) ==
  \A d \in 1..Len(doc.defs) : doc.defs[d].k = "op" => RootTypeOfKind(roots, doc.defs[d].kind) # ""

Valid(S, doc, roots) ==
  /\ RuleRootTypesExist(doc, roots)
  /\ RuleOperationsNamed(doc)
  /\ RuleTypeConditionsExist(S, doc)
  /\ RuleFragmentsDefined(doc)
  /\ RuleFieldsExist(S, doc, roots)
  /\ RuleOnlyTypenameOnUnion(S, doc, roots)
  /\ RuleLeafComposite(S, doc, roots)
  /\ RuleSpreadsPossible(S, doc, roots)
  /\ RuleTypenamePresent(S, doc, roots)
  /\ RuleTypenameNotAliased(doc)
  /\ RuleTypenameNoSelection(doc)
  /\ RuleSubscriptionSingleRoot(doc)

\* GraphQL validity alone: Valid without graphql-client's own __typename rule.  A document that is
\* ValidSpec but not Valid may be REFUSED by the generator; if it is accepted, the generated code owes
\* it everything it owes any other program (ProgGen, constant Extended).
ValidSpec(S, doc, roots) ==
  /\ RuleRootTypesExist(doc, roots)
  /\ RuleOperationsNamed(doc)
  /\ RuleTypeConditionsExist(S, doc)
  /\ RuleFragmentsDefined(doc)
  /\ RuleFieldsExist(S, doc, roots)
  /\ RuleOnlyTypenameOnUnion(S, doc, roots)
  /\ RuleLeafComposite(S, doc, roots)
  /\ RuleSpreadsPossible(S, doc, roots)
  /\ RuleTypenameNoSelection(doc)
  /\ RuleSubscriptionSingleRoot(doc)

----------------------------------------------------------------------------
(* Execution shape (GraphQL spec, CollectFields): the response keys an      *)
(* object of run-time type T gets from selection set (d,p).                 *)
(* Entry: [key, node, abs] ; abs = the set it was written in is abstract.   *)
RECURSIVE Collect(_, _, _, _, _, _)
Collect(S, doc, d, p, T, setType) ==
  LET kids == ChildSeq(doc, d, p)
      One(i) ==
        LET n == doc.nodes[i] IN
        CASE n.k = "field"    -> <<[key |-> IF n.alias # "" THEN n.alias ELSE n.name, node |-> i,
                                    abs |-> IsAbstract(S, setType)]>>
          [] n.k = "typename" -> <<[key |-> "__typename", node |-> i, abs |-> IsAbstract(S, setType)]>>
          [] n.k = "inline"   -> IF T \in PossibleTypes(S, n.on)
                                 THEN Collect(S, doc, d, i, T, n.on) ELSE <<>>
          [] n.k = "spread"   -> LET f == FragIndex(doc, n.name) IN
                                 IF f # 0 /\ T \in PossibleTypes(S, doc.defs[f].on)
                                 THEN Collect(S, doc, f, 0, T, doc.defs[f].on) ELSE <<>>
  IN  FlattenSeq([j \in 1..Len(kids) |-> One(kids[j])])

\* no two collected entries share a response key (other than __typename): no field merging needed
KeysDistinct(es) ==
  \A a, b \in 1..Len(es) : (a # b /\ es[a].key = es[b].key) => es[a].key = "__typename"
=============================================================================
