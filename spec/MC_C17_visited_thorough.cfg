SPECIFICATION Spec
CONSTANTS N = 4
 UseVisited = TRUE
INVARIANTS StackBounded Emit
PROPERTY Terminates
CHECK_DEADLOCK FALSE
