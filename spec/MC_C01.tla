------------------------------ MODULE MC_C01 ------------------------------
(* C01 / C03: programs x payload vectors (conforming and corrupted).        *)
EXTENDS ProgGen, Exec, Json

Spec == Init /\ [][PGNext]_pgvars

Complete == Done /\ Supported(doc)

SchemaJson == [order |-> UniverseOrder, types |-> Universe,
               roots |-> [full |-> Roots("full"), noMutation |-> Roots("noMutation"),
                          noSubscription |-> Roots("noSubscription")]]
ASSUME PrintT(<<"SCHEMA", ToJson(SchemaJson)>>)

Emit == Complete => PrintT(<<"PROG", ToJson([doc |-> doc, vectors |-> Vectors(doc, R0, OpIndex(doc))])>>)
=============================================================================
