------------------------------- MODULE MC_C10 -------------------------------
(* C10: enum definitions of 1..MaxValues values x normalization.              *)
EXTENDS Enums, Json, TLC

CONSTANT MaxValues

VARIABLES values, normalization
vars == <<values, normalization>>

Init == /\ values \in {v \in SUBSET ValuePool : Cardinality(v) \in 1..MaxValues}
        /\ normalization \in {"none", "rust"}
        /\ Admissible(values, normalization)
Next == UNCHANGED vars
Spec == Init /\ [][Next]_vars

\* reference sanity: total, round-trips every string, separates the values
RoundTrip == \A s \in Strings : Ser(Deser(values, s)) = s
Separates == \A a, b \in values : a # b => Deser(values, a) # Deser(values, b)
OpenWorld == \A s \in Strings \ values : Deser(values, s).kind = "other"

Case == [values |-> values, normalization |-> normalization,
         expect |-> [s \in Strings |-> Deser(values, s).kind]]
Emit == PrintT(<<"ENUM", ToJson(Case)>>)
=============================================================================
