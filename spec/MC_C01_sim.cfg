SPECIFICATION Spec
CONSTANTS
  MaxFrags = 2
  MaxNodes = 7
  FieldPool = {}
  Extended = {}
  Fuel = 5
  FlipFuel = 4
INVARIANTS Emit
CHECK_DEADLOCK FALSE
