----------------------------- MODULE IdCoercion -----------------------------
(***************************************************************************)
(* What an ID-typed response position accepts (property C16):              *)
(*   a JSON string is taken verbatim; a 64-bit signed integer n becomes    *)
(*   its decimal string; a nullable ID additionally maps null (or          *)
(*   absence) to None; floats, booleans, arrays and objects are rejected.  *)
(***************************************************************************)
EXTENDS JsonVal

Strings  == {Str(""), Str("abc"), Str("123"), Str("007"), Str("-5"), Str("1.5"), Str("null"),
             Str("$nonascii"), Str("$long")}
Integers == {Int("0"), Int("1"), Int("-1"), Int("42"), Int("2147483648"), Int("-2147483649"),
             Int("9223372036854775807"), Int("-9223372036854775808")}
Rejected == {Sc("float", "1.0"), Sc("float", "1.5"), Sc("float", "-0.0"), Sc("float", "1e308"),
             Sc("bool", "true"), Sc("bool", "false"), EmptyList, Lst(<<Str("abc")>>), Lst(<<Int("1")>>),
             EmptyObj, Obj(<<KV("id", Str("abc"))>>)}

ValueClasses == Strings \cup Integers \cup Rejected \cup {Null}

\* expected outcome: [ok, some, text]
Outcome(ok, some, text) == [ok |-> ok, some |-> some, text |-> text]

ExpectNonNull(v) ==
  IF v \in Strings \cup Integers THEN Outcome(TRUE, TRUE, v.s) ELSE Outcome(FALSE, FALSE, "")

ExpectNullable(v) ==
  IF v \in Strings \cup Integers THEN Outcome(TRUE, TRUE, v.s)
  ELSE IF v = Null THEN Outcome(TRUE, FALSE, "")
  ELSE Outcome(FALSE, FALSE, "")

\* an absent key at a nullable ID position is None as well
ExpectAbsentNullable == Outcome(TRUE, FALSE, "")
ExpectAbsentNonNull  == Outcome(FALSE, FALSE, "")
=============================================================================
