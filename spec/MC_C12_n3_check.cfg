SPECIFICATION Spec
CONSTANT N = 3
INVARIANTS DecisionSound DecisionExact
CHECK_DEADLOCK FALSE
