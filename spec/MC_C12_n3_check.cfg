SPECIFICATION Spec
CONSTANTS DoubleMembers = FALSE
 N = 3
INVARIANTS DecisionSound DecisionExact
CHECK_DEADLOCK FALSE
