------------------------------ MODULE Frontends ------------------------------
(***************************************************************************)
(* One schema, several files (property C07).  A rendering says how the     *)
(* abstract schema is written down; a variant says which schema of the     *)
(* family it is.  The relation the generator must respect:                 *)
(*   same variant, same type order  => LITERALLY identical outcome         *)
(*                                     (token stream, or the same error)   *)
(*   same variant, other type order => identical up to the order of items  *)
(*                                     in the module and of enum variants  *)
(***************************************************************************)
EXTENDS Naturals, Sequences, FiniteSets, TypeExpr

\* ---- renderings ----------------------------------------------------------
Rendering(fmt, order, builtins, introTypes, roots, fold, sparse, docs) ==
  [fmt |-> fmt,              \* "sdl" | "json" | "wrapped" ({"data": {"__schema": ..}})
   order |-> order,          \* "decl" | "reversed" | "rotated"   order of the type definitions
   builtins |-> builtins,    \* built-in scalars declared / listed explicitly
   introTypes |-> introTypes,\* JSON: the `__Schema`, `__Type`, ... types are listed too
   roots |-> roots,          \* "explicit" (schema block, custom names) | "default" (no block, Query/Mutation/
                             \* Subscription) | "defaultExplicit" (those names, but listed in a schema block)
   fold |-> fold,            \* SDL: `extend type` blocks folded into the type or kept separate
   sparse |-> sparse,        \* JSON: null members omitted, and (when no input is @oneOf) no `isOneOf` member at all
   docs |-> docs]            \* everything the generator must ignore is present: descriptions, comments,
                             \* a custom directive (definition and applications), specifiedByURL, isRepeatable

Formats == {"sdl", "json", "wrapped"}
Orders  == {"decl", "reversed", "rotated"}

Renderings ==
  {Rendering(f, o, b, i, r, fo, sp, d) :
      f \in Formats, o \in Orders, b \in BOOLEAN, i \in BOOLEAN, r \in {"explicit", "default", "defaultExplicit"},
      fo \in BOOLEAN, sp \in BOOLEAN, d \in BOOLEAN}

\* options that do not apply to a format are fixed (canonical representative)
WellFormedRendering(r) ==
  /\ (r.fmt = "sdl" => ~r.introTypes /\ ~r.sparse)
  /\ (r.fmt # "sdl" => r.fold)

\* the base rendering every other one is compared with
Reference == Rendering("sdl", "decl", FALSE, FALSE, "explicit", TRUE, FALSE, FALSE)

SameOrder(a, b) == a.order = b.order
\* root naming is part of the schema's identity for names, so it is compared like with like
Comparable(a, b) == a.roots = b.roots

\* ---- variants of the universe schema ------------------------------------
\* px: type expression of the probe field Person.px and its base kind
\* depIface / depObj: deprecation of Node.name and Person.old: "none" | "bare" | reason atom
\* oneOf: By is an @oneOf input; robotNode: Robot implements Node; petMembers; enumVals
\* rootsV: which root operation types the schema has: "full" | "noMutation" | "noSubscription"
\*         (the object types RootM / RootS exist either way; they are just not roots)
Variant(px, pxBase, depIface, depObj, oneOf, robotNode, petCat, extraEnum, rootsV) ==
  [px |-> px, pxBase |-> pxBase, depIface |-> depIface, depObj |-> depObj, oneOf |-> oneOf,
   robotNode |-> robotNode, petCat |-> petCat, extraEnum |-> extraEnum, rootsV |-> rootsV]

\* without a schema block the default names decide the roots, so that rendering only denotes
\* schemas that have all three roots
Denotes(r, v) == r.roots = "default" => v.rootsV = "full"

DepChoices == {"none", "bare", "use the other one", "$quotes"}
PxBases == {"Int", "ID", "Color", "Date", "Person", "Node", "Pet"}
=============================================================================
