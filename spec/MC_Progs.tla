------------------------------ MODULE MC_Progs ------------------------------
(* Enumeration of supported programs only (no oracle evaluation): the cases  *)
(* from which the drivers draw covering samples.                             *)
EXTENDS ProgGen, Json

Spec == Init /\ [][PGNext]_pgvars

Complete == Done /\ Supported(doc)

SchemaJson == [order |-> UniverseOrder, types |-> Universe,
               roots |-> [full |-> Roots("full"), noMutation |-> Roots("noMutation"),
                          noSubscription |-> Roots("noSubscription")]]
ASSUME PrintT(<<"SCHEMA", ToJson(SchemaJson)>>)

Emit == Complete => PrintT(<<"DOC", ToJson(doc)>>)

\* with Extended = TRUE: the documents of the wider class only (tag XDOC)
EmitExt == (Done /\ MaybeRefused(doc)) => PrintT(<<"XDOC", ToJson(doc)>>)
=============================================================================
