------------------------------- MODULE MC_C02 -------------------------------
(***************************************************************************)
(* C02: the option lattice (wire-neutral options of Options.tla plus the   *)
(* options that legitimately change behaviour) x delivery form x consumer  *)
(* configuration.  Programs come from ProgGen (Supported).                 *)
(***************************************************************************)
EXTENDS Options, Json, TLC

Forms == {"library", "derive", "cli"}
Consumers == {"serde", "noserde"}

VARIABLES o, deprecation, otherVariant, skipNone, form, consumer
vars == <<o, deprecation, otherVariant, skipNone, form, consumer>>

Init ==
  /\ o \in [normalization : WireNeutral.normalization, response_derives : WireNeutral.response_derives,
            variables_derives : WireNeutral.variables_derives, module_visibility : WireNeutral.module_visibility,
            custom_scalars_module : WireNeutral.custom_scalars_module, extern_enums : WireNeutral.extern_enums,
            serde_path : WireNeutral.serde_path]
  /\ deprecation \in {"", "allow", "warn", "deny"}
  /\ otherVariant \in BOOLEAN
  /\ skipNone \in BOOLEAN
  /\ form \in Forms
  /\ consumer \in Consumers
  \* what each delivery form can express
  /\ (form = "cli" => /\ o.normalization = "none" /\ o.serde_path = "" /\ ~skipNone)      \* the CLI has no such flags
  /\ (form = "derive" => o.serde_path = "graphql_client::_private::serde")               \* fixed by the macro
  /\ (form = "library" /\ consumer = "noserde" => o.serde_path = "graphql_client::_private::serde")
  /\ (consumer = "noserde" => form # "cli")                                              \* CLI output names ::serde
  \* a consumer without serde cannot supply (de)serialisable extern enums
  /\ (consumer = "noserde" => o.extern_enums = "")
  \* ... nor name serde's traits by a path through a crate it does not depend on
  /\ (consumer = "noserde" => (o.response_derives # "Debug, serde::Serialize" /\ o.variables_derives # "serde::Deserialize, Debug"))
Next == UNCHANGED vars
Spec == Init /\ [][Next]_vars

Case == [options |-> o, deprecation |-> deprecation, otherVariant |-> otherVariant, skipNone |-> skipNone,
         form |-> form, consumer |-> consumer]
Emit == PrintT(<<"CONF", ToJson(Case)>>)
=============================================================================
