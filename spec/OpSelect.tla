------------------------------ MODULE OpSelect ------------------------------
(***************************************************************************)
(* Which operation(s) of a document a generation call is about, and what   *)
(* each emitted module must contain (property C05).                        *)
(*                                                                         *)
(*   mode "derive": the struct name must select an operation of that name  *)
(*                  under the chosen normalization, else generation fails  *)
(*                  naming the available operations - never a fallback;    *)
(*   mode "cli"   : an explicit name selects exactly that operation, no    *)
(*                  selection gives one module per operation.              *)
(* Each module: QUERY = the source text byte for byte, OPERATION_NAME =    *)
(* the unmodified name of ONE operation i, ResponseData / Variables        *)
(* derived from that same operation i.                                     *)
(***************************************************************************)
EXTENDS Naturals, Sequences, FiniteSets

\* the name pool with its Rust normalisation (UpperCamelCase as computed by `heck`)
Camel == [ MyQuery |-> "MyQuery", myQuery |-> "MyQuery", my_query |-> "MyQuery",
           MYQUERY |-> "Myquery", Other |-> "Other", other_op |-> "OtherOp" ]
Pool == DOMAIN Camel
\* the module of an operation is named after its snake_case name
Snake == [ MyQuery |-> "my_query", myQuery |-> "my_query", my_query |-> "my_query",
           MYQUERY |-> "myquery", Other |-> "other", other_op |-> "other_op" ]

Norm(normalization, name) == IF normalization = "rust" THEN Camel[name] ELSE name

Matches(ops, requested, normalization) ==
  {i \in 1..Len(ops) : Norm(normalization, ops[i]) = requested}

\* result: [kind, which]  kind in {"one", "all", "notfound", "unspecified"}
\*   one:  exactly one module, for some operation in `which` (the same one throughout)
\*   all:  one module per operation, in document order
Select(ops, requested, normalization, mode) ==
  LET m == Matches(ops, requested, normalization) IN
  IF mode = "derive"
  THEN IF m = {} THEN [kind |-> "notfound", which |-> {}] ELSE [kind |-> "one", which |-> m]
  ELSE IF requested = "" THEN
         \* two operations with the same normalised name would define the same Rust items twice
         \* (same struct name or same module name; recorded as a C02 finding, not part of C05)
         IF \E i, j \in 1..Len(ops) : i # j /\ (Norm(normalization, ops[i]) = Norm(normalization, ops[j])
                                                   \/ Snake[ops[i]] = Snake[ops[j]])
         THEN [kind |-> "unspecified", which |-> {}]
         ELSE [kind |-> "all", which |-> 1..Len(ops)]
  ELSE IF m = {} THEN [kind |-> "unspecified", which |-> {}]   \* documented: all operations; not part of C05
  ELSE [kind |-> "one", which |-> m]
=============================================================================
