------------------------------- MODULE MC_C07 -------------------------------
(* C07: schema variants x pairs of renderings that must agree.               *)
EXTENDS Frontends, Json, TLC

CONSTANT MaxDepth, Pairwise   \* Pairwise: vary one variant parameter at a time (quick) or all (thorough)

VARIABLES variant, ra, rb
vars == <<variant, ra, rb>>

RootVariants == {"full", "noMutation", "noSubscription"}

BaseVariant == Variant(<<>>, "Int", "none", "use the other one", TRUE, TRUE, TRUE, FALSE, "full")

Variants ==
  IF Pairwise
  THEN {[BaseVariant EXCEPT !.px = q, !.pxBase = b] : q \in TypeExprs(MaxDepth), b \in PxBases} \cup
       {[BaseVariant EXCEPT !.depIface = d, !.depObj = e] : d \in DepChoices, e \in DepChoices} \cup
       {[BaseVariant EXCEPT !.oneOf = o, !.robotNode = r, !.petCat = p, !.extraEnum = x, !.rootsV = rv] :
           o \in BOOLEAN, r \in BOOLEAN, p \in BOOLEAN, x \in BOOLEAN, rv \in RootVariants}
  ELSE {Variant(q, b, d, e, o, r, p, x, rv) :
           q \in TypeExprs(MaxDepth), b \in PxBases, d \in DepChoices, e \in DepChoices,
           o \in BOOLEAN, r \in BOOLEAN, p \in BOOLEAN, x \in BOOLEAN, rv \in RootVariants}

WF == {r \in Renderings : WellFormedRendering(r)}

\* every rendering is compared with the SDL rendering of the same order and root naming
Init == /\ variant \in Variants
        /\ rb \in WF
        /\ ra = [Reference EXCEPT !.order = rb.order, !.roots = rb.roots]
        /\ ra # rb
        /\ Denotes(ra, variant) /\ Denotes(rb, variant)
Next == UNCHANGED vars
Spec == Init /\ [][Next]_vars

PairsComparable == SameOrder(ra, rb) /\ Comparable(ra, rb)

Case == [variant |-> variant, a |-> ra, b |-> rb, relation |-> "literal"]
Emit == PrintT(<<"CASE", ToJson(Case)>>)
=============================================================================
