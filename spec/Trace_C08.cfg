SPECIFICATION TraceSpec
CONSTANTS
  NThreads = 16
  MaxPerThread = 0
  MaxTotal = 0
  Alphabet = {}
  PoisonRecovery = TRUE
  Threads <- MCThreads
  PlanSet <- MCPlans
  CallDef <- MCCalls
  Files <- MCFiles
INVARIANTS MutualExclusion CacheFaithful Purity
POSTCONDITION Accepted
CHECK_DEADLOCK FALSE
