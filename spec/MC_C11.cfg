SPECIFICATION Spec
CONSTANT Table <- CodeTable
INVARIANTS TableComplete TableSorted SearchCorrect EscapesExactlyKeywords Emit
PROPERTY Terminates
CHECK_DEADLOCK FALSE
