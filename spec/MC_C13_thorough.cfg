SPECIFICATION Spec
CONSTANT MaxDepth = 6
INVARIANTS TypeOK NoDoubleRequired ExtractionFaithful Agree Emit
PROPERTY Terminates
CHECK_DEADLOCK FALSE
