----------------------------- MODULE MC_Pipeline -----------------------------
EXTENDS GraphqlClient
RECURSIVE SeqsLen(_, _)
SeqsLen(S, n) == IF n = 0 THEN {<<>>} ELSE {<<x>> \o s : x \in S, s \in SeqsLen(S, n - 1)}
Distinct(s) == \A i, j \in 1..Len(s) : i # j => s[i] # s[j]
Init == /\ ops \in UNION {{s \in SeqsLen(Pool, n) : Distinct(s)} : n \in 1..2}
        /\ requested \in Pool \cup {""}
        /\ normalization \in {"none", "rust"}
        /\ mode \in {"derive", "cli"}
        /\ (mode = "derive" => requested # "")
        /\ loadable \in BOOLEAN /\ valid \in BOOLEAN
        /\ GCInit
Spec == Init /\ [][GCNext]_gcvars /\ WF_gcvars(GCNext)
Terminates == <>(stage = "done")
=============================================================================
