SPECIFICATION Spec
CONSTANT MaxDepth = 2
INVARIANT Emit
CHECK_DEADLOCK FALSE
