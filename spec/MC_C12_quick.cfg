SPECIFICATION Spec
CONSTANT N = 2
INVARIANTS DecisionSound DecisionExact Emit
CHECK_DEADLOCK FALSE
