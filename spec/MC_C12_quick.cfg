SPECIFICATION Spec
CONSTANTS DoubleMembers = TRUE
 N = 2
INVARIANTS DecisionSound DecisionExact Emit
CHECK_DEADLOCK FALSE
