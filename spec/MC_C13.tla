------------------------------ MODULE MC_C13 ------------------------------
(***************************************************************************)
(* C13 - one exact rule maps GraphQL type modifiers to Option / Vec.       *)
(*                                                                         *)
(* State machine = the implementation's algorithm, one action per loop     *)
(* iteration:                                                              *)
(*   Extract*   resolve_field_type (SDL AST)  /  from_json_type_inner      *)
(*              (JSON ofType chain): walk the syntax tree, push qualifiers *)
(*   Prepend    codegen/inputs.rs generate_enum: @oneOf members get a      *)
(*              Required qualifier in front                                *)
(*   Decorate*  codegen.rs decorate_type: iterate qualifiers in REVERSE    *)
(*              with the `non_null` flag                                   *)
(* checked against the reference rule TypeExpr!RustType on every           *)
(* well-formed expression up to MaxDepth, every base kind, every position. *)
(* Every terminal state is emitted as a test case for the real generator.  *)
(***************************************************************************)
EXTENDS TypeExpr, TLC, Json

CONSTANT MaxDepth

ResponseBases == {"Int", "Float", "String", "ID", "Boolean", "Date", "Color", "Obj", "Iface", "Uni"}
InputBases    == {"Int", "Float", "String", "ID", "Boolean", "Date", "Color", "Leaf"}
Positions     == {"field", "var", "inputfield", "oneof"}
Formats       == {"sdl", "json"}

Bases(p) == IF p = "field" THEN ResponseBases ELSE InputBases

VARIABLES tq, base, pos, fmt,      \* the case
          pc, ast, quals, i, nonNull, acc

vars == <<tq, base, pos, fmt, pc, ast, quals, i, nonNull, acc>>

Init == /\ pos \in Positions
        /\ fmt \in Formats
        /\ base \in Bases(pos)
        /\ tq \in TypeExprs(MaxDepth)
        /\ (pos = "oneof" => OuterNullable(tq))   \* @oneOf members are nullable by definition
        /\ pc = "extract"
        /\ ast = Ast(tq, base)
        /\ quals = <<>>
        /\ i = 0
        /\ nonNull = FALSE
        /\ acc = "_"

\* one iteration of the extraction loop (both front-ends have this shape)
ExtractWrap == /\ pc = "extract"
               /\ ast.k # "named"
               /\ quals' = Append(quals, IF ast.k = "list" THEN "L" ELSE "R")
               /\ ast' = ast.of
               /\ UNCHANGED <<tq, base, pos, fmt, pc, i, nonNull, acc>>

ExtractNamed == /\ pc = "extract"
                /\ ast.k = "named"
                /\ pc' = IF pos = "oneof" THEN "prepend" ELSE "decorate"
                /\ i' = Len(quals)
                /\ UNCHANGED <<tq, base, pos, fmt, ast, quals, nonNull, acc>>

Prepend == /\ pc = "prepend"
           /\ quals' = <<"R">> \o quals
           /\ i' = Len(quals) + 1
           /\ pc' = "decorate"
           /\ UNCHANGED <<tq, base, pos, fmt, ast, nonNull, acc>>

\* one iteration of `for qualifier in qualifiers.iter().rev()`
DecorateStep ==
    /\ pc = "decorate"
    /\ i >= 1
    /\ LET ql == quals[i] IN
         \/ /\ nonNull /\ ql = "L"
            /\ acc' = "Vec<" \o acc \o ">" /\ nonNull' = FALSE /\ pc' = pc
         \/ /\ ~nonNull /\ ql = "L"
            /\ acc' = "Vec<Option<" \o acc \o ">>" /\ nonNull' = FALSE /\ pc' = pc
         \/ /\ nonNull /\ ql = "R"
            /\ pc' = "panic" /\ UNCHANGED <<acc, nonNull>>     \* "double required annotation"
         \/ /\ ~nonNull /\ ql = "R"
            /\ nonNull' = TRUE /\ acc' = acc /\ pc' = pc
    /\ i' = i - 1
    /\ UNCHANGED <<tq, base, pos, fmt, ast, quals>>

DecorateFinish ==
    /\ pc = "decorate"
    /\ i = 0
    /\ acc' = IF nonNull THEN acc ELSE "Option<" \o acc \o ">"
    /\ pc' = "done"
    /\ UNCHANGED <<tq, base, pos, fmt, ast, quals, i, nonNull>>

Next == ExtractWrap \/ ExtractNamed \/ Prepend \/ DecorateStep \/ DecorateFinish

Spec == Init /\ [][Next]_vars /\ WF_vars(Next)

\* the expression the position really has
EffQ == IF pos = "oneof" THEN <<"R">> \o tq ELSE tq

----------------------------------------------------------------------------
TypeOK == /\ pc \in {"extract", "prepend", "decorate", "done", "panic"}
          /\ i \in 0..(2 * MaxDepth + 2)

NoDoubleRequired == pc # "panic"

ExtractionFaithful == pc \in {"decorate", "done"} => quals = EffQ

Agree == pc = "done" => acc = RustType(EffQ, "_")

Terminates == <>(pc = "done")

Case == [q |-> tq, text |-> Text(tq, base), base |-> base, pos |-> pos, fmt |-> fmt,
         expect |-> RustType(EffQ, "_"),
         rustbase |-> IF base \in DOMAIN BuiltinRust THEN BuiltinRust[base] ELSE "@" \o base,
         outerNullable |-> OuterNullable(EffQ)]

Emit == pc = "done" => PrintT(<<"CASE", ToJson(Case)>>)
=============================================================================
