------------------------------- MODULE MC_C18 -------------------------------
(***************************************************************************)
(* C18: every arrangement of `#[graphql(...)]` entries (subsets of the     *)
(* optional keys up to MaxOptional, all permutations, trailing comma) x    *)
(* the positional scanner of attributes.rs, one loop iteration per action. *)
(***************************************************************************)
EXTENDS DeriveAttr, Json

CONSTANT MaxOptional

VARIABLES entries, trailing, target, idx, pc, found, value, items
vars == <<entries, trailing, target, idx, pc, found, value, items>>

Optional == AllKeys \ Required

RECURSIVE Perms(_)
Perms(S) == IF S = {} THEN {<<>>}
            ELSE UNION {{<<x>> \o p : p \in Perms(S \ {x})} : x \in S}

Arrangements ==
  UNION {Perms(Required \cup opt) : opt \in {o \in SUBSET Optional : Cardinality(o) <= MaxOptional}}

Toks == Tokens(entries, trailing)

Init == /\ \E ks \in Arrangements : entries = [i \in 1..Len(ks) |-> Entry(ks[i])]
        /\ trailing \in BOOLEAN
        /\ target \in AllKeys
        /\ idx = 1
        /\ pc = "scan"
        /\ found = FALSE
        /\ value = ""
        /\ items = <<>>

IsIdent(i, k) == i <= Len(Toks) /\ Toks[i].t = "ident" /\ Toks[i].v = k

\* extract_attr: `while let Some(item) = iter.next()`
ScanKv ==
  /\ pc = "scan" /\ target \in KvKeys
  /\ IF idx > Len(Toks) THEN /\ pc' = "done" /\ UNCHANGED <<idx, found, value, items>>
     ELSE IF IsIdent(idx, target)
          THEN \* iter.next() skips one token; the next one must be a literal
               IF idx + 2 <= Len(Toks) /\ Toks[idx + 2].t = "lit"
               THEN /\ found' = TRUE /\ value' = Toks[idx + 2].v /\ pc' = "done" /\ UNCHANGED <<idx, items>>
               ELSE /\ idx' = idx + 3 /\ UNCHANGED <<pc, found, value, items>>
          ELSE /\ idx' = idx + 1 /\ UNCHANGED <<pc, found, value, items>>
  /\ UNCHANGED <<entries, trailing, target>>

\* extract_attr_list
ScanList ==
  /\ pc = "scan" /\ target \in ListKeys
  /\ IF idx > Len(Toks) THEN /\ pc' = "done" /\ UNCHANGED <<idx, found, value, items>>
     ELSE IF IsIdent(idx, target)
          THEN IF idx + 1 <= Len(Toks) /\ Toks[idx + 1].t = "group"
               THEN /\ found' = TRUE /\ items' = Toks[idx + 1].items /\ pc' = "done" /\ UNCHANGED <<idx, value>>
               ELSE /\ idx' = idx + 2 /\ UNCHANGED <<pc, found, value, items>>
          ELSE /\ idx' = idx + 1 /\ UNCHANGED <<pc, found, value, items>>
  /\ UNCHANGED <<entries, trailing, target>>

\* ident_exists
ScanFlag ==
  /\ pc = "scan" /\ target \in FlagKeys
  /\ IF idx > Len(Toks) THEN /\ pc' = "done" /\ UNCHANGED <<idx, found, value, items>>
     ELSE IF IsIdent(idx, target)
          THEN /\ found' = TRUE /\ pc' = "done" /\ UNCHANGED <<idx, value, items>>
          ELSE /\ idx' = idx + 1 /\ UNCHANGED <<pc, found, value, items>>
  /\ UNCHANGED <<entries, trailing, target>>

Next == ScanKv \/ ScanList \/ ScanFlag
Spec == Init /\ [][Next]_vars /\ WF_vars(Next)

\* the scanner returns exactly what was written / nothing when the key is absent
ScannerCorrect ==
  pc = "done" =>
     /\ found = Written(entries, target)
     /\ (target \in KvKeys => value = RefKv(entries, target).value)
     /\ (target \in ListKeys => items = (IF Written(entries, target) THEN ListValue ELSE <<>>))

Terminates == <>(pc = "done")

Case == [entries |-> entries, trailing |-> trailing, options |-> RefOptions(entries)]

\* each arrangement is emitted once (from its initial state for the first target)
Emit == (pc = "scan" /\ idx = 1 /\ target = "query_path") => PrintT(<<"CASE", ToJson(Case)>>)
=============================================================================
