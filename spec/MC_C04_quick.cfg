SPECIFICATION Spec
CONSTANTS MaxDepth = 2
 Fuel = 2
 FlipFuel = 1
INVARIANT Emit
CHECK_DEADLOCK FALSE
