SPECIFICATION TSpec
INVARIANTS RenderedIsPrefix OkMeansAllRendered ErrorMeansNothingRendered
POSTCONDITION Accepted
CHECK_DEADLOCK FALSE
