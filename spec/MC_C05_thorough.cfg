SPECIFICATION Spec
CONSTANT MaxOps = 3
INVARIANTS SelectSound Emit
CHECK_DEADLOCK FALSE
