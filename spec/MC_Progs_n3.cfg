SPECIFICATION Spec
CONSTANTS
  MaxFrags = 1
  MaxNodes = 3
  FieldPool = {}
INVARIANTS Emit
CHECK_DEADLOCK FALSE
