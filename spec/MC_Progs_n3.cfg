SPECIFICATION Spec
CONSTANTS
  MaxFrags = 1
  MaxNodes = 3
  FieldPool = {}
  Extended = {}
INVARIANTS Emit
CHECK_DEADLOCK FALSE
