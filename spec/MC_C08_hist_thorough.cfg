SPECIFICATION Spec
CONSTANTS
  NThreads = 1
  MaxPerThread = 4
  MaxTotal = 4
  PoisonRecovery = TRUE
  Alphabet = {"base","invalid","deep","opts2","copy","dot","other","sother","json","qmiss","qbad","smiss","sbad","sext","both2","rel1","rel2"}
  Threads <- MCThreads
  PlanSet <- MCPlans
  CallDef <- MCCalls
  Files <- MCFiles
INVARIANTS MutualExclusion CacheFaithful Purity Emit
PROPERTY Termination
CHECK_DEADLOCK FALSE
