------------------------------- MODULE MC_C12 -------------------------------
(* C12: every input-type graph on N types x @oneOf flags.                    *)
EXTENDS Inputs, Json, TLC

CONSTANT N

VARIABLES g, oneOf
vars == <<g, oneOf>>

Init == /\ oneOf \in [Nodes(N) -> BOOLEAN]
        /\ g \in [Nodes(N) \X Nodes(N) -> Kinds]
        \* members of an @oneOf type are nullable
        /\ \A i \in Nodes(N), j \in Nodes(N) : oneOf[i] => g[<<i, j>>] \in NullableKinds
Next == UNCHANGED vars
Spec == Init /\ [][Next]_vars

\* the implementation's decision gives finite-size types on every graph ...
DecisionSound == FiniteSize(g, N)
\* ... and its notion of "recursive" is exactly "lies on a cycle of by-value members"
DecisionExact == \A x \in Nodes(N) : RecursiveByCode(g, N, x) = OnByValueCycle(g, N, x)

Case == [n |-> N, oneOf |-> oneOf,
         edges |-> {[from |-> e[1], to |-> e[2], kind |-> g[e], boxed |-> Boxed(g, N, e[1], e[2])] :
                       e \in {x \in Nodes(N) \X Nodes(N) : g[x] # "none"}},
         recursive |-> {x \in Nodes(N) : OnByValueCycle(g, N, x)}]
Emit == PrintT(<<"GRAPH", ToJson(Case)>>)
=============================================================================
