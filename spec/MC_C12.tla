------------------------------- MODULE MC_C12 -------------------------------
(* C12: every input-type graph on N types x @oneOf flags.                    *)
EXTENDS Inputs, Json, TLC

CONSTANTS N, DoubleMembers   \* DoubleMembers: also the kinds with two members per ordered pair of types

VARIABLES g, oneOf, pos
vars == <<g, oneOf, pos>>

\* The graph is built one ordered pair at a time (pair number pos, row-major), so that the same
\* module serves exhaustive search (all graphs) and simulation (random graphs on more types).
Pairs == [k \in 1..(N * N) |-> <<((k - 1) \div N) + 1, ((k - 1) % N) + 1>>]
Done == pos > N * N

Init == /\ oneOf \in [Nodes(N) -> BOOLEAN]
        /\ g = [e \in Nodes(N) \X Nodes(N) |-> "none"]
        /\ pos = 1

\* members of an @oneOf type are nullable
SetPair == /\ ~Done
           /\ \E k \in (IF DoubleMembers THEN Kinds ELSE Kinds \ {"[T]+T", "T+[T]"}) :
                 /\ (oneOf[Pairs[pos][1]] => k \in NullableKinds)
                 /\ g' = [g EXCEPT ![Pairs[pos]] = k]
           /\ pos' = pos + 1
           /\ UNCHANGED oneOf
Next == SetPair
Spec == Init /\ [][Next]_vars

\* the implementation's decision gives finite-size types on every graph ...
DecisionSound == Done => FiniteSize(g, N)
\* ... and its notion of "recursive" is exactly "lies on a cycle of by-value members"
DecisionExact == Done => \A x \in Nodes(N) : RecursiveByCode(g, N, x) = OnByValueCycle(g, N, x)

Case == [n |-> N, oneOf |-> oneOf,
         edges |-> {[from |-> e[1], to |-> e[2], kind |-> g[e], boxed |-> Boxed(g, N, e[1], e[2])] :
                       e \in {x \in Nodes(N) \X Nodes(N) : g[x] # "none"}},
         recursive |-> {x \in Nodes(N) : OnByValueCycle(g, N, x)}]
Emit == Done => PrintT(<<"GRAPH", ToJson(Case)>>)
=============================================================================
