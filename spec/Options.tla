-------------------------------- MODULE Options --------------------------------
(***************************************************************************)
(* Code generation options (properties C09, C19).  An option is either     *)
(* WIRE-NEUTRAL - documented as affecting only Rust naming, traits or      *)
(* placement - or it legitimately changes what is accepted / produced.     *)
(* C09: observations through JSON are identical under every combination   *)
(* of the wire-neutral options.                                            *)
(***************************************************************************)
EXTENDS Naturals, FiniteSets

WireNeutral ==
  [ normalization         |-> {"none", "rust"},
    response_derives      |-> {"Debug, Serialize", "Debug, PartialEq, Serialize, Clone", "Serialize,Debug , Clone",
                                "Debug, serde::Serialize"},           \* a trait may be given by path
    variables_derives     |-> {"Deserialize", "Deserialize, Debug, Clone, PartialEq", "serde::Deserialize, Debug"},
    module_visibility     |-> {"pub", "pub(crate)"},
    custom_scalars_module |-> {"", "crate::scalars"},
    extern_enums          |-> {"", "Color"},
    serde_path            |-> {"", "graphql_client::_private::serde"} ]

\* options that do change the wire behaviour or the set of accepted programs (not varied by C09)
WireRelevant == {"deprecation", "fragments_other_variant", "skip_serializing_none", "operation_name", "mode"}

OptionNames == DOMAIN WireNeutral
OptionSets == [OptionNames -> UNION {WireNeutral[n] : n \in OptionNames}]
WellTyped(o) == \A n \in OptionNames : o[n] \in WireNeutral[n]

Default == [ normalization |-> "none", response_derives |-> "Debug, Serialize", variables_derives |-> "Deserialize",
             module_visibility |-> "pub", custom_scalars_module |-> "", extern_enums |-> "", serde_path |-> "" ]

\* number of options on which two sets differ
Distance(a, b) == Cardinality({n \in OptionNames : a[n] # b[n]})
=============================================================================
