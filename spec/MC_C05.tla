------------------------------- MODULE MC_C05 -------------------------------
(* C05: documents x requested name x normalization x mode x text decoration. *)
EXTENDS OpSelect, Json, TLC

CONSTANT MaxOps

Decorations == {"crlf", "cr", "tabs", "commas", "comments", "escapes", "blockstring",
                "notrailingnewline", "leadingblank", "astral", "bom"}
DecoSets == {{}} \cup {{d} : d \in Decorations} \cup {Decorations}

RECURSIVE SeqsLen(_, _)
SeqsLen(S, n) == IF n = 0 THEN {<<>>} ELSE {<<x>> \o s : x \in S, s \in SeqsLen(S, n - 1)}
Distinct(s) == \A i, j \in 1..Len(s) : i # j => s[i] # s[j]
OpSeqs == UNION {{s \in SeqsLen(Pool, n) : Distinct(s)} : n \in 1..MaxOps}

VARIABLES ops, requested, normalization, mode, deco, fragsAt
vars == <<ops, requested, normalization, mode, deco, fragsAt>>

Init == /\ ops \in OpSeqs
        /\ requested \in Pool \cup {"Myquery", "OtherOp", ""}
        /\ normalization \in {"none", "rust"}
        /\ mode \in {"derive", "cli"}
        /\ (mode = "derive" => requested # "")
        /\ deco \in DecoSets
        /\ fragsAt \in {"none", "first", "last", "between"}
Next == UNCHANGED vars
Spec == Init /\ [][Next]_vars

Sel == Select(ops, requested, normalization, mode)

\* sanity of the oracle: a selected operation always carries the requested (normalised) name
SelectSound == Sel.kind = "one" => \A i \in Sel.which : Norm(normalization, ops[i]) = requested

Case == [ops |-> ops, requested |-> requested, normalization |-> normalization, mode |-> mode,
         deco |-> deco, fragsAt |-> fragsAt, kind |-> Sel.kind, which |-> Sel.which]
Emit == Sel.kind # "unspecified" => PrintT(<<"CASE", ToJson(Case)>>)
=============================================================================
