SPECIFICATION Spec
CONSTANT OpenOutputEarly = TRUE
INVARIANTS SuccessDeliversJson FailureLeavesFile
CHECK_DEADLOCK FALSE
