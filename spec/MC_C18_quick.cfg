SPECIFICATION Spec
CONSTANT MaxOptional = 2
INVARIANTS ScannerCorrect Emit
PROPERTY Terminates
CHECK_DEADLOCK FALSE
