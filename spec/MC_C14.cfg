SPECIFICATION Spec
INVARIANTS Sane Emit
CHECK_DEADLOCK FALSE
