------------------------------ MODULE Trace_C19 ------------------------------
(***************************************************************************)
(* Trace validation for C19: one record per real run of the built binary   *)
(* `graphql-client generate` (request, exit status, files created /        *)
(* modified in the scratch tree, whether the written content equals the    *)
(* library's output for LibraryOptions(flags)).  Each record must be the   *)
(* outcome of a behaviour of CliGenerate.tla for that request.             *)
(***************************************************************************)
EXTENDS CliGenerate, Json, IOUtils, TLCExt

Rec == ndJsonDeserialize(IOEnv.TRACE)

VARIABLE l
TInit == /\ l = 1
         /\ flags = Rec[1].flags /\ qname = Rec[1].qname /\ placement = Rec[1].placement
         /\ formatting = Rec[1].formatting /\ program = Rec[1].program
         /\ stage = "parsed" /\ written = {} /\ exit = 99

\* the final state of the protocol for request e
ExpectedExit(e) == IF e.program \in {"valid", "validWide"} /\ e.placement # "outdirMissing" THEN 0 ELSE 1
ExpectedFiles(e) == IF ExpectedExit(e) = 0 THEN {Destination(e.qname, e.placement)} ELSE {}

Matches(e) ==
  /\ (e.exit = 0) = (ExpectedExit(e) = 0)
  /\ {e.created[i] : i \in 1..Len(e.created)} = ExpectedFiles(e)
  /\ Len(e.modified) = 0
  /\ (ExpectedExit(e) = 0 => e.contentIsLibraryOutput)

TNext == /\ l <= Len(Rec)
         /\ Matches(Rec[l])
         /\ l' = l + 1
         /\ UNCHANGED <<flags, qname, placement, formatting, program, stage, written, exit>>

TSpec == TInit /\ [][TNext]_<<cgvars, l>>

Accepted ==
  IF TLCGet("stats").diameter - 1 = Len(Rec) THEN TRUE
  ELSE /\ PrintT(<<"UNMATCHED", TLCGet("stats").diameter>>)
       /\ FALSE
=============================================================================
