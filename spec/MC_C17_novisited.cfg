SPECIFICATION Spec
CONSTANTS N = 2
 UseVisited = FALSE
INVARIANTS StackBounded
CONSTRAINT Bound
CHECK_DEADLOCK FALSE
