SPECIFICATION Spec
CONSTANTS
  MaxFrags = 2
  MaxNodes = 7
  FieldPool = {}
INVARIANTS Emit
CHECK_DEADLOCK FALSE
