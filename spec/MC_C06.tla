------------------------------ MODULE MC_C06 ------------------------------
(* C06: every program of the generator x every invalidating edit.           *)
EXTENDS ProgGen, Edits, Json

Spec == Init /\ [][PGNext]_pgvars

Complete == Done /\ Supported(doc)

\* the oracle's own sanity: every edit really breaks reference validity
Lemma == Complete => EditsInvalidate(S, doc)

SchemaJson == [order |-> UniverseOrder, types |-> Universe,
               roots |-> [full |-> Roots("full"), noMutation |-> Roots("noMutation"),
                          noSubscription |-> Roots("noSubscription")]]
ASSUME PrintT(<<"SCHEMA", ToJson(SchemaJson)>>)

Emit == Complete => PrintT(<<"PROG", ToJson([doc |-> doc, edits |-> Edits(S, doc, R0)])>>)
=============================================================================
