SPECIFICATION Spec
INVARIANTS SuccessWritesOneFile FailureWritesNothing ExitReflectsOutcome Emit
PROPERTY Terminates
CHECK_DEADLOCK FALSE
