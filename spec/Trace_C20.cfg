SPECIFICATION TSpec
CONSTANT OpenOutputEarly = FALSE
CONSTRAINT Track
POSTCONDITION Accepted
CHECK_DEADLOCK FALSE
