------------------------------ MODULE ProgGen ------------------------------
(***************************************************************************)
(* Generator of (schema, document) programs: a state machine whose         *)
(* reachable complete states ARE the programs.  Documents are built in the *)
(* implementation's flat representation by adding nodes on the right-most  *)
(* path only (canonical generation of ordered trees), definition after     *)
(* definition.  Used exhaustively for small bounds and with `-simulate`    *)
(* beyond.  The supported subset (DESIGN section 8) is enforced partly by  *)
(* construction and finally by the predicate Supported.                    *)
(***************************************************************************)
EXTENDS Gql, TLC

CONSTANTS MaxFrags,      \* number of named fragments declared up front (0..MaxFrags)
          MaxNodes,      \* soft budget of nodes per definition
          FieldPool,     \* set of field names the generator may select ({} = all)
          Extended       \* set of relaxations: also build documents that are valid GraphQL but outside what
                         \* the generator promises to accept:
                         \*   "noTypename"   abstract selections without __typename
                         \*   "abstractCond" type conditions on ANOTHER abstract type that overlaps the scope

VARIABLES doc,      \* [defs, nodes]
          cur,      \* index of the definition under construction; Len(defs)+1 when finished
          path,     \* right-most path of open composite nodes in the current definition
          budget    \* node budget of the current walk

pgvars == <<doc, cur, path, budget>>

S == Universe
R0 == Roots("full")

FragNames == <<"FragA", "FragB", "FragC">>
OpKinds == {"query", "mutation", "subscription"}
Aliases == {"", "al"}
AliasedFields == {"name", "id", "best", "pet", "node", "me", "nodes", "changed", "rename", "tags"}

Done == cur > Len(doc.defs)

\* scope type at level j of the open path (0 = the definition's root set)
LevelNode(j) == IF j = 0 THEN 0 ELSE path[j]
LevelType(j) == IF j = 0 THEN DefType(doc, R0, cur) ELSE TargetType(S, doc, R0, path[j])

NodesInCur == Cardinality({i \in NodeIds(doc) : doc.nodes[i].d = cur})

\* has a field been crossed between the definition root and level j?
Crossed(j) == \E k \in 1..j : doc.nodes[path[k]].k = "field"

\* a selection set is complete: non-empty, and __typename present when its type is abstract
\* (the __typename of an abstract set may also come from a fragment on the same type that is spread
\* here and whose body is built later; whether it really does is decided by Supported at the end)
PromisedTypename(d, p, t) ==
  \E i \in ChildSet(doc, d, p) :
     /\ doc.nodes[i].k = "spread"
     /\ LET f == FragIndex(doc, doc.nodes[i].name) IN f > cur /\ doc.defs[f].on = t

SetComplete(d, p, t) ==
  /\ ChildSet(doc, d, p) # {}
  /\ (IsAbstract(S, t) /\ "noTypename" \notin Extended) => (HasTypename(doc, d, p, t, {}) \/ PromisedTypename(d, p, t))

\* levels deeper than j can be closed
Closable(j) == \A k \in (j + 1)..Len(path) : SetComplete(cur, path[k], LevelType(k))

KeysAt(j) == {LET n == doc.nodes[i] IN IF n.alias # "" THEN n.alias ELSE n.name :
                 i \in {x \in ChildSet(doc, cur, LevelNode(j)) : doc.nodes[x].k = "field"}}

Pool(t) == {S[t].fields[i].name : i \in 1..Len(S[t].fields)} \cap
           (IF FieldPool = {} THEN {S[t].fields[i].name : i \in 1..Len(S[t].fields)} ELSE FieldPool)

Push(node) == doc' = [doc EXCEPT !.nodes = Append(@, node)]

SubPath(j) == SubSeq(path, 1, j)

\* The document starts as one operation; fragments are declared by the first spread that names
\* them (so every fragment is used) and their bodies are built after the operation's.
Init ==
  /\ \E kind \in OpKinds : doc = [defs |-> <<OpDef(kind, "MyOp")>>, nodes |-> <<>>]
  /\ cur = 1
  /\ path = <<>>
  /\ budget \in 1..MaxNodes

\* may more nodes be added freely, or only what completion requires?
Free == NodesInCur < budget /\ Len(doc.nodes) < 3 * MaxNodes

AddField ==
  /\ ~Done
  /\ \E j \in 0..Len(path) :
       /\ Closable(j)
       /\ LET t == LevelType(j) IN
          /\ KindOf(S, t) \in {"OBJECT", "INTERFACE"}
          /\ (cur # 0 /\ ~(doc.defs[cur].k = "op" /\ doc.defs[cur].kind = "subscription" /\ j = 0
                           /\ ChildSet(doc, cur, 0) # {}))        \* one root field in subscriptions
          /\ \E f \in Pool(t), al \in Aliases :
               /\ (al # "" => f \in AliasedFields)
               /\ LET key == IF al # "" THEN al ELSE f
                      fd == FieldOf(S, t, f)
                      leaf == IsLeaf(S, fd.base)
                  IN  /\ key \notin KeysAt(j)
                      /\ (Free \/ (leaf /\ j = Len(path) /\ ~SetComplete(cur, LevelNode(j), t)))
                      /\ Push(FieldNode(cur, LevelNode(j), f, al))
                      /\ path' = IF leaf THEN SubPath(j) ELSE Append(SubPath(j), Len(doc.nodes) + 1)
  /\ UNCHANGED <<cur, budget>>

AddTypename ==
  /\ ~Done
  /\ \E j \in 0..Len(path) :
       /\ Closable(j)
       /\ IsComposite(S, LevelType(j))
       /\ ~(doc.defs[cur].k = "op" /\ j = 0)       \* not at the operation root (keeps subscription arity simple)
       /\ ~\E i \in ChildSet(doc, cur, LevelNode(j)) : doc.nodes[i].k = "typename"
       /\ (Free \/ (j = Len(path) /\ IsAbstract(S, LevelType(j))))
       /\ Push(TypenameNode(cur, LevelNode(j)))
       /\ path' = SubPath(j)
  /\ UNCHANGED <<cur, budget>>

\* type conditions on a member of an abstract scope
AddInline ==
  /\ ~Done /\ Free
  /\ \E j \in 0..Len(path) :
       /\ Closable(j)
       /\ IsAbstract(S, LevelType(j))
       /\ \E on \in PossibleTypes(S, LevelType(j)) \cup
                     (IF "abstractCond" \in Extended THEN {a \in DOMAIN S : /\ IsComposite(S, a) /\ IsAbstract(S, a) /\ a # LevelType(j)
                                                          /\ Overlaps(S, a, LevelType(j))}
                      ELSE {}) :
            /\ Push(InlineNode(cur, LevelNode(j), on))
            /\ path' = Append(SubPath(j), Len(doc.nodes) + 1)
  /\ UNCHANGED <<cur, budget>>

\* spread of a fragment on the scope type itself or on a member of an abstract scope; the
\* fragment is either already declared or declared by this spread
SpreadTargets(t) == {t} \cup (IF IsAbstract(S, t) THEN PossibleTypes(S, t) ELSE {})

NFrags == Len(doc.defs) - 1

AddSpread ==
  /\ ~Done /\ Free
  /\ \E j \in 0..Len(path) :
       /\ Closable(j)
       /\ IsComposite(S, LevelType(j))
       /\ ~(doc.defs[cur].k = "op" /\ doc.defs[cur].kind = "subscription" /\ j = 0)
       /\ \/ \E f \in 2..Len(doc.defs) :
               /\ doc.defs[f].on \in SpreadTargets(LevelType(j))
               \* no spread cycle that does not cross a field: before any field is crossed a
               \* fragment body may only spread later-declared fragments
               /\ (doc.defs[cur].k = "frag" /\ ~Crossed(j)) => f > cur
               /\ ~\E i \in ChildSet(doc, cur, LevelNode(j)) :
                      doc.nodes[i].k = "spread" /\ doc.nodes[i].name = doc.defs[f].name
               /\ doc' = [doc EXCEPT !.nodes = Append(@, SpreadNode(cur, LevelNode(j), doc.defs[f].name))]
          \/ /\ NFrags < MaxFrags
             /\ \E on \in SpreadTargets(LevelType(j)) :
                  doc' = [defs |-> Append(doc.defs, FragDef(FragNames[NFrags + 1], on)),
                          nodes |-> Append(doc.nodes, SpreadNode(cur, LevelNode(j), FragNames[NFrags + 1]))]
       /\ path' = SubPath(j)
  /\ UNCHANGED <<cur, budget>>

NextDef ==
  /\ ~Done
  /\ Closable(0)
  /\ SetComplete(cur, 0, DefType(doc, R0, cur))
  /\ cur' = cur + 1
  /\ path' = <<>>
  /\ UNCHANGED <<doc, budget>>

PGNext == AddField \/ AddTypename \/ AddInline \/ AddSpread \/ NextDef

----------------------------------------------------------------------------
(* Supported subset: valid, and no response key is produced twice for any  *)
(* run-time type of any selection set (no field merging, DESIGN D13), and  *)
(* every declared fragment is reachable from the operation.                *)

RECURSIVE ReachFrags(_, _, _)
ReachFrags(d, from, seen) ==
  LET direct == {FragIndex(d, d.nodes[i].name) :
                    i \in {x \in NodeIds(d) : d.nodes[x].d \in from /\ d.nodes[x].k = "spread"}}
      new == (direct \ seen) \ {0}
  IN  IF new = {} THEN seen ELSE ReachFrags(d, new, seen \cup new)

OpIndex(d) == CHOOSE i \in 1..Len(d.defs) : d.defs[i].k = "op"

AllSetsDistinct(d) ==
  /\ \A dd \in 1..Len(d.defs) :
        \A T \in PossibleTypes(S, DefType(d, R0, dd)) :
           KeysDistinct(Collect(S, d, dd, 0, T, DefType(d, R0, dd)))
  /\ \A i \in NodeIds(d) :
        (d.nodes[i].k = "field" /\ IsComposite(S, TargetType(S, d, R0, i))) =>
           \A T \in PossibleTypes(S, TargetType(S, d, R0, i)) :
              KeysDistinct(Collect(S, d, d.nodes[i].d, i, T, TargetType(S, d, R0, i)))

Supported(d) ==
  /\ Valid(S, d, R0)
  /\ AllSetsDistinct(d)

\* valid GraphQL without field merging that the generator need not accept
\* (an inline fragment on an abstract type passes the rule catalogue - it is valid GraphQL - but the
\* generator documents no support for it and refuses it)
UsesAbstractCond(d) == \E i \in NodeIds(d) : d.nodes[i].k = "inline" /\ IsAbstract(S, d.nodes[i].on)
MaybeRefused(d) ==
  /\ ValidSpec(S, d, R0)
  /\ AllSetsDistinct(d)
  /\ (~Valid(S, d, R0) \/ UsesAbstractCond(d))
=============================================================================
