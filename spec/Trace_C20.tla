------------------------------ MODULE Trace_C20 ------------------------------
(***************************************************************************)
(* Trace validation for C20: one record per real run of                    *)
(* `graphql-client introspect-schema` against the loopback mock (scenario   *)
(* and what was observed: exit status class, state of the output file,      *)
(* operation name of the request the server saw, stdout).  Each record must *)
(* be the final state of a behaviour of Introspect.tla for that scenario.   *)
(***************************************************************************)
EXTENDS Introspect, Json, IOUtils, TLCExt

Rec == ndJsonDeserialize(IOEnv.TRACE)

VARIABLE l

\* the scenario variables follow the records; the protocol is run to completion for each record
LoadScenario(e) ==
  /\ isOneOf' = e.isOneOf /\ specifyByUrl' = e.specifyByUrl /\ auth' = e.auth /\ headers' = e.headers
  /\ output' = e.output /\ existing' = e.existing /\ server' = e.server
  /\ stage' = "start" /\ file' = (IF e.existing THEN "old" ELSE "absent")
  /\ request' = "none" /\ exit' = 99 /\ stdoutJson' = FALSE

TInit ==
  /\ l = 1
  /\ isOneOf = Rec[1].isOneOf /\ specifyByUrl = Rec[1].specifyByUrl /\ auth = Rec[1].auth /\ headers = Rec[1].headers
  /\ output = Rec[1].output /\ existing = Rec[1].existing /\ server = Rec[1].server
  /\ stage = "start" /\ file = (IF Rec[1].existing THEN "old" ELSE "absent")
  /\ request = "none" /\ exit = 99 /\ stdoutJson = FALSE

\* silent protocol steps while the current record's run is in progress
Step == /\ ~Done /\ Next /\ UNCHANGED l

\* the run is finished: the observation must be this final state; then load the next record
Observe ==
  /\ Done
  /\ l <= Len(Rec)
  /\ LET o == Rec[l].obs IN
       /\ o.exit = exit
       /\ o.request = request
       /\ (output = "stdout" => o.stdoutJson = stdoutJson)
       \* (an output file that did not exist may or may not have been created by a failing run)
       /\ ((output = "file" /\ (existing \/ exit = 0)) => o.file = file)
  /\ l' = l + 1
  /\ IF l < Len(Rec) THEN LoadScenario(Rec[l + 1]) ELSE UNCHANGED ivars

TNext == Step \/ Observe
TSpec == TInit /\ [][TNext]_<<ivars, l>>

\* highest record index reached (register 1), maintained from a state constraint; -workers 1
ASSUME TLCSet(1, 0)
Track == TLCSet(1, IF l > TLCGet(1) THEN l ELSE TLCGet(1))

Accepted ==
  IF TLCGet(1) = Len(Rec) + 1 THEN TRUE
  ELSE /\ PrintT(<<"UNMATCHED", TLCGet(1)>>)
       /\ FALSE
=============================================================================
