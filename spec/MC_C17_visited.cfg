SPECIFICATION Spec
CONSTANTS N = 3
 UseVisited = TRUE
INVARIANTS StackBounded Emit
PROPERTY Terminates
CHECK_DEADLOCK FALSE
