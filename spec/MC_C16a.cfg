SPECIFICATION Spec
INVARIANTS Consistent Emit
CHECK_DEADLOCK FALSE
