------------------------------- MODULE MC_C04 -------------------------------
(* C04: one operation per base type declaring a variable of every type        *)
(* expression up to MaxDepth over that base, x assignments.                   *)
EXTENDS InputsExec, Json

CONSTANT MaxDepth

VARIABLE base
Init == base \in Bases
Next == UNCHANGED base
Spec == Init /\ [][Next]_base

\* @oneOf members and the like are not involved here: every expression is a legal variable type
\* (input-object bases: one list level less, their values are large)
Exprs == TypeSeqOf(TypeExprs(IF IsInputObject(base) THEN MaxDepth - 1 ELSE MaxDepth))

VarNames == <<"v0", "type", "camelCase", "snake_case", "v4", "v5", "v6", "v7", "v8", "v9", "v10", "v11", "v12", "v13",
              "v14", "v15", "v16", "v17", "v18", "v19", "v20", "v21", "v22", "v23", "v24", "v25", "v26", "v27", "v28", "v29">>

Decls == [k \in 1..Len(Exprs) |-> [name |-> VarNames[k], q |-> Exprs[k], base |-> base]]

Case == [base |-> base, decls |-> [k \in 1..Len(Decls) |-> [name |-> Decls[k].name, q |-> Decls[k].q,
                                                           base |-> base, text |-> Text(Decls[k].q, base)]],
         vectors |-> Vectors(Decls)]
Emit == PrintT(<<"CASE", ToJson(Case)>>)

SchemaJson == [inputs |-> InputTypes, enums |-> EnumValues, defaults |-> FieldDefaults]
ASSUME PrintT(<<"SCHEMA", ToJson(SchemaJson)>>)
=============================================================================
