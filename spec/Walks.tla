-------------------------------- MODULE Walks --------------------------------
(***************************************************************************)
(* The recursive graph walks of the generator, as an explicit call stack   *)
(* (property C17: generation terminates on every input; it never overflows *)
(* the stack).  A walk is a depth-first search over a directed graph       *)
(*   - fragments with "spreads" edges          (collect_used_types,        *)
(*     selection_set_contains_type_name)                                   *)
(*   - input types with "has a member of type" edges                       *)
(*     (used_input_ids_recursive, contains_type_without_indirection)       *)
(* One action per call (Enter) and per return (Return).  UseVisited says   *)
(* whether the walk carries a visited set.  The walk terminates on every   *)
(* graph iff the stack is bounded; with a visited set its depth is at most *)
(* the number of nodes + 1.                                                *)
(***************************************************************************)
EXTENDS Naturals, Sequences, FiniteSets

CONSTANTS N,            \* nodes are 1..N
          UseVisited    \* BOOLEAN

Nodes == 1..N

VARIABLES edges,        \* the graph: a set of <<from, to>>
          stack,        \* sequence of frames [node, next]: next = next child candidate to look at
          visited,
          result

wvars == <<edges, stack, visited, result>>

Frame(n) == [node |-> n, next |-> 1]

Init == /\ edges \in SUBSET (Nodes \X Nodes)
        /\ stack = <<Frame(1)>>                 \* the walk starts at node 1
        /\ visited = {1}
        /\ result = "running"

Top == stack[Len(stack)]

\* look at the next candidate child of the top frame
Step ==
  /\ result = "running" /\ stack # <<>>
  /\ LET f == Top IN
     IF f.next > N
     THEN \* all children handled: return to the caller
          /\ stack' = SubSeq(stack, 1, Len(stack) - 1)
          /\ result' = IF Len(stack) = 1 THEN "returned" ELSE "running"
          /\ UNCHANGED visited
     ELSE LET c == f.next
              bump == [stack EXCEPT ![Len(stack)].next = c + 1]
          IN  IF <<f.node, c>> \in edges /\ ~(UseVisited /\ c \in visited)
              THEN \* recursive call
                   /\ stack' = Append(bump, Frame(c))
                   /\ visited' = visited \cup {c}
                   /\ UNCHANGED result
              ELSE /\ stack' = bump
                   /\ UNCHANGED <<visited, result>>
  /\ UNCHANGED edges

Next == Step
Spec == Init /\ [][Next]_wvars /\ WF_wvars(Next)

\* the call stack never exceeds the number of nodes (+1): no stack overflow on any graph
StackBounded == Len(stack) <= N + 1
Terminates == <>(result = "returned")

\* graphs on which a walk WITHOUT a visited set does not terminate: a cycle reachable from 1
RECURSIVE Reach(_, _)
Reach(S, E) == LET nxt == S \cup {e[2] : e \in {x \in E : x[1] \in S}} IN IF nxt = S THEN S ELSE Reach(nxt, E)
HasReachableCycle(E) == \E n \in Reach({1}, E) : n \in Reach({e[2] : e \in {x \in E : x[1] = n}}, E)
=============================================================================
