SPECIFICATION Spec
CONSTANTS
  Fuel = 4
  FlipFuel = 3
INVARIANTS Emit
CHECK_DEADLOCK FALSE
