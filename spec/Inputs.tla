-------------------------------- MODULE Inputs --------------------------------
(***************************************************************************)
(* Input object types as a directed multigraph (property C12, and the      *)
(* variables side of C04).  Nodes are input types 1..N; between an ordered *)
(* pair of types there is at most one member, of kind                      *)
(*    "T"  nullable        "T!"  non-null                                  *)
(*    "[T]" nullable list  "[T!]!" non-null list of non-null               *)
(* and a type may be an @oneOf type (its members are then nullable kinds). *)
(*                                                                         *)
(* Reference criterion for finite size: in the generated Rust types a      *)
(* member stores its target BY VALUE unless it goes through a Vec (list)   *)
(* or a Box; the by-value graph must be acyclic.                           *)
(* Model of the implementation's decision: a member is boxed iff its       *)
(* target type "is recursive without indirection", computed by the DFS of  *)
(* schema.rs contains_type_without_indirection with its shared visited set.*)
(***************************************************************************)
EXTENDS Naturals, Sequences, FiniteSets

\* "[T]+T" / "T+[T]": TWO members referring to the same type, a list and a plain one, declared in that order
\* (`input Filter { and: [Filter], not: Filter }`): the list member gives indirection, the plain one does not
Kinds == {"none", "T", "T!", "[T]", "[T!]!", "[T]+T", "T+[T]"}
ListKinds == {"[T]", "[T!]!"}
NullableKinds == {"none", "T", "[T]", "[T]+T", "T+[T]"}

\* g : [ (1..n) \X (1..n) -> Kinds ]
Nodes(n) == 1..n
IsList(k) == k \in ListKinds
ByValueEdge(g, i, j) == g[<<i, j>>] \in {"T", "T!", "[T]+T", "T+[T]"}

(* ---- model of the code: DFS with a visited set shared across siblings ---- *)
\* Visit(g, n, cur, target, visited) = [found, visited]: does `cur` contain `target` without indirection?
RECURSIVE Visit(_, _, _, _, _), VisitFields(_, _, _, _, _, _)
VisitFields(g, n, cur, target, j, visited) ==
  \* the `any` over the members of `cur`, in declaration order j = 1..n, short-circuiting
  IF j > n THEN [found |-> FALSE, visited |-> visited]
  ELSE IF ~ByValueEdge(g, cur, j) THEN VisitFields(g, n, cur, target, j + 1, visited)
  ELSE IF j = target THEN [found |-> TRUE, visited |-> visited]
  ELSE IF j \in visited THEN VisitFields(g, n, cur, target, j + 1, visited)
  ELSE LET r == Visit(g, n, j, target, visited)
       IN  IF r.found THEN r ELSE VisitFields(g, n, cur, target, j + 1, r.visited)
Visit(g, n, cur, target, visited) == VisitFields(g, n, cur, target, 1, visited \cup {cur})

RecursiveByCode(g, n, x) == Visit(g, n, x, x, {}).found

\* a member i -> j is boxed iff its target j is recursive (whatever the member's own kind)
Boxed(g, n, i, j) == g[<<i, j>>] # "none" /\ RecursiveByCode(g, n, j)

(* ---- reference criterion -------------------------------------------------- *)
\* by-value containment after the indirections: not a list, not boxed
Contains(g, n, i, j) == ByValueEdge(g, i, j) /\ ~Boxed(g, n, i, j)

RECURSIVE ReachBV(_, _, _)
ReachBV(g, n, S) == LET nxt == S \cup {j \in Nodes(n) : \E i \in S : Contains(g, n, i, j)}
                    IN  IF nxt = S THEN S ELSE ReachBV(g, n, nxt)

FiniteSize(g, n) == \A x \in Nodes(n) : x \notin ReachBV(g, n, {j \in Nodes(n) : Contains(g, n, x, j)})

\* the reference notion of "lies on a cycle of by-value members"
RECURSIVE ReachRaw(_, _, _)
ReachRaw(g, n, S) == LET nxt == S \cup {j \in Nodes(n) : \E i \in S : ByValueEdge(g, i, j)}
                     IN  IF nxt = S THEN S ELSE ReachRaw(g, n, nxt)
OnByValueCycle(g, n, x) == x \in ReachRaw(g, n, {j \in Nodes(n) : ByValueEdge(g, x, j)})
=============================================================================
