SPECIFICATION Spec
CONSTANTS MaxDepth = 2
 Pairwise = TRUE
INVARIANTS PairsComparable Emit
CHECK_DEADLOCK FALSE
