------------------------------- MODULE MC_C08 -------------------------------
(***************************************************************************)
(* C08: call histories (one thread) and schedules (two / three threads)    *)
(* over a file universe with the same file under different paths,          *)
(* different files with the same base name, missing / unparsable files and *)
(* a wrong extension.                                                      *)
(***************************************************************************)
EXTENDS Cache, Json

CONSTANTS NThreads, MaxPerThread, MaxTotal, Alphabet

F(st, c) == [status |-> st, content |-> c]

MCFiles ==
  [ q1       |-> F("ok", "QA"),      \* a/ops.graphql
    q1copy   |-> F("ok", "QA"),      \* byte-identical copy under another path
    q1dot    |-> F("ok", "QA"),      \* the same file spelled a/x/../ops.graphql
    q2       |-> F("ok", "QB"),      \* b/ops.graphql: same base name, different content
    q1rel    |-> F("ok", "QA"),      \* ops.graphql relative to the working directory b/sub
    q2rel    |-> F("ok", "QB"),      \* ../ops.graphql relative to it (= b/ops.graphql)
    qinvalid |-> F("ok", "QI"),      \* a/invalid.graphql: parses, but selects an unknown field five levels down
    qdeep    |-> F("ok", "QD"),      \* a/deep.graphql: a valid selection nested thirty levels deep
    qmissing |-> F("missing", ""),
    qbad     |-> F("bad", ""),
    s1       |-> F("ok", "SA"),      \* a/schema.graphql
    s1json   |-> F("ok", "SA"),      \* the same schema as introspection JSON
    s2       |-> F("ok", "SB"),      \* b/schema.graphql: same base name, different content
    smissing |-> F("missing", ""),
    sbad     |-> F("bad", ""),
    sext     |-> F("ext", "") ]      \* schema.txt: unsupported extension

C(q, s, o) == [q |-> q, s |-> s, o |-> o]
MCCalls ==
  [ base   |-> C("q1", "s1", "o1"),
    opts2  |-> C("q1", "s1", "o2"),
    copy   |-> C("q1copy", "s1", "o1"),
    dot    |-> C("q1dot", "s1", "o1"),
    other  |-> C("q2", "s1", "o1"),
    sother |-> C("q1", "s2", "o1"),
    json   |-> C("q1", "s1json", "o3"),
    invalid |-> C("qinvalid", "s1", "o1"),   \* loads fine, fails in resolution: still a pure function of its inputs
    deep   |-> C("qdeep", "s1", "o1"),
    qmiss  |-> C("qmissing", "s1", "o1"),
    qbad   |-> C("qbad", "s1", "o1"),
    smiss  |-> C("q1", "smissing", "o1"),
    sbad   |-> C("q1", "sbad", "o1"),
    sext   |-> C("q2", "sext", "o1"),
    both2  |-> C("q2", "s2", "o3"),
    rel1   |-> C("q1rel", "s1", "o1"),
    rel2   |-> C("q2rel", "s1", "o1") ]

MCThreads == {"t" \o ToString(i) : i \in 1..NThreads}

RECURSIVE SeqsLen(_, _)
SeqsLen(S, n) == IF n = 0 THEN {<<>>} ELSE {<<x>> \o s : x \in S, s \in SeqsLen(S, n - 1)}
SeqsUpToLen(S, n) == UNION {SeqsLen(S, k) : k \in 0..n}

Total(p) == LET RECURSIVE Sum(_) Sum(ts) == IF ts = {} THEN 0 ELSE LET t == CHOOSE x \in ts : TRUE IN Len(p[t]) + Sum(ts \ {t})
            IN Sum(MCThreads)

MCPlans == {p \in [MCThreads -> SeqsUpToLen(Alphabet, MaxPerThread)] :
               /\ Total(p) <= MaxTotal
               /\ \A t \in MCThreads : Len(p[t]) >= 1}

Case == [plan |-> plan, acq |-> acq, hist |-> hist]
Emit == AllDone => PrintT(<<"CASE", ToJson(Case)>>)

Universe == [files |-> MCFiles, calls |-> MCCalls]
ASSUME PrintT(<<"UNIVERSE", ToJson(Universe)>>)

\* the hypotheses of the TLAPS proof (spec/proofs/CacheProof.tla, ASSUME Assm) hold in this instance, so
\* the theorem proved there applies to the very model whose behaviours are replayed into the code
ProofAssumptions ==
  /\ PoisonRecovery \in BOOLEAN
  /\ "free" \notin Threads
  /\ \A p \in PlanSet : \A t \in Threads : \A i \in 1..Len(p[t]) : p[t][i] \in DOMAIN CallDef
  /\ \A c \in DOMAIN CallDef : CallDef[c].q \in DOMAIN Files /\ CallDef[c].s \in DOMAIN Files
ASSUME ProofAssumptions
=============================================================================
