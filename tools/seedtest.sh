#!/bin/sh
# usage: tools/seedtest.sh <patch.diff> <check id>...   -- apply a seeded change to /repo, run checks, always undo.
p="$1"; shift
cd /verif || exit 2
git -C /repo apply "$p" || { echo "patch does not apply"; exit 2; }
for id in "$@"; do
  ./check "$id" --tier quick > /tmp/seedtest.$$.out 2>/tmp/seedtest.$$.err; rc=$?
  echo "== $id rc=$rc violations=$(grep -c '^VIOLATION' /tmp/seedtest.$$.out) known=$(grep -c '^KNOWN' /tmp/seedtest.$$.out)"
  grep -m3 '^VIOLATION' /tmp/seedtest.$$.out
  grep -m3 -- '->' /tmp/seedtest.$$.err | cut -c1-300
  [ $rc -eq 2 ] && tail -5 /tmp/seedtest.$$.err
done
rm -f /tmp/seedtest.$$.*
git -C /repo checkout -- . 
git -C /repo status --short | grep -v '^??' | head
