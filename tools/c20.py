"""C20 - `introspect-schema` sends the right request and never corrupts its output.

Introspect.tla / MC_C20: TLC explores the protocol for every scenario (flags,
header strings, output target and its prior state, server behaviour) and checks
the invariants; with OpenOutputEarly = TRUE it exhibits the truncated output
file.  The driver runs the real binary against a loopback mock endpoint with
scripted behaviour for a covering sample of scenarios, records the request the
server saw, the exit status, stdout and the output file, compares them with the
specification and validates the recorded runs with TLC (Trace_C20).  The file
written on success must generate the same code as the server's SDL.
"""
import json, os, random, re, shutil, socket, subprocess, sys, threading
import vlib, render, prog
from vlib import Check, ToolError
import c19

PROP = "C20"
TAB = "\t"
OLD = json.dumps({"old": "previous schema", "pad": "x" * 200000})   # longer than any reply


def expand(s):
    return s.replace("$TAB", TAB)


class Mock:
    """one-shot HTTP endpoint on 127.0.0.1 with scripted behaviour"""

    def __init__(self, behaviour, body):
        self.behaviour = behaviour
        self.body = body
        self.request = None
        self.requests = []
        self.sock = socket.socket(socket.AF_INET, socket.SOCK_STREAM)
        self.sock.bind(("127.0.0.1", 0))
        self.port = self.sock.getsockname()[1]
        if behaviour == "refused":
            self.sock.close()
            self.thread = None
            return
        self.sock.listen(4)
        self.sock.settimeout(15)
        self.thread = threading.Thread(target=self.serve, daemon=True)
        self.thread.start()

    def serve(self):
        # every connection the client makes is answered (with the same behaviour) and recorded: a client that
        # quietly asks again is seen
        while True:
            try:
                conn, _ = self.sock.accept()
            except OSError:
                return
            if not self.serve_one(conn):
                return

    def serve_one(self, conn):
        try:
            conn.settimeout(10)
            data = b""
            while b"\r\n\r\n" not in data:
                chunk = conn.recv(65536)
                if not chunk:
                    break
                data += chunk
            if not data.strip():
                return False    # the dummy connection of close(): nobody asked anything
            head, _, rest = data.partition(b"\r\n\r\n")
            lines = head.decode("latin-1").split("\r\n")
            headers = []
            for l in lines[1:]:
                k, _, v = l.partition(":")
                headers.append([k.strip(), v.strip()])
            clen = int(next((v for k, v in headers if k.lower() == "content-length"), "0"))
            while len(rest) < clen:
                chunk = conn.recv(65536)
                if not chunk:
                    break
                rest += chunk
            rq = {"line": lines[0], "headers": headers, "body": rest.decode("utf-8", "replace")}
            self.requests.append(rq)
            if self.request is None:
                self.request = rq
            b = self.behaviour
            if b == "200json":
                self.reply(conn, 200, "application/json", self.body)
            elif b == "200garbage":
                self.reply(conn, 200, "application/json", "<html>this is not json")
            elif b == "200badutf8":
                # the genuine body with one Latin-1 byte inside a string: shaped like JSON, not UTF-8, so not JSON
                raw = self.body.encode().replace(b'"', b'"caf\xe9 ', 1)
                conn.sendall(("HTTP/1.1 200 X\r\nContent-Type: application/json\r\nContent-Length: %d\r\nConnection: close\r\n\r\n" % len(raw)).encode() + raw)
            elif b == "200jsonthengarbage":
                # a complete JSON value followed by something else: the BODY is not JSON
                self.reply(conn, 200, "application/json", self.body + "\n<html><body>gateway banner</body></html>")
            elif b == "200number":
                self.reply(conn, 200, "text/plain", "404 page not found")
            elif b == "404json":
                self.reply(conn, 404, "application/json", json.dumps({"errors": [{"message": "not here"}]}))
            elif b == "400text":
                self.reply(conn, 400, "text/plain", "bad request, plain text")
            elif b == "500json":
                self.reply(conn, 500, "application/json", json.dumps({"errors": [{"message": "boom"}]}))
            elif b == "503text":
                self.reply(conn, 503, "text/plain", "unavailable")
            elif b == "closemid":
                payload = self.body.encode()
                conn.sendall(("HTTP/1.1 200 OK\r\nContent-Type: application/json\r\nContent-Length: %d\r\nConnection: close\r\n\r\n" % len(payload)).encode()
                             + payload[: len(payload) // 2])
        except OSError:
            pass
        finally:
            try:
                conn.close()
            except OSError:
                pass
        return True

    def reply(self, conn, status, ctype, body):
        b = body.encode()
        conn.sendall(("HTTP/1.1 %d X\r\nContent-Type: %s\r\nContent-Length: %d\r\nConnection: close\r\n\r\n" % (status, ctype, len(b))).encode() + b)

    def close(self):
        if self.thread:
            # the client has exited: if it never connected, unblock accept() by a dummy connection
            if self.thread.is_alive():
                try:
                    socket.create_connection(("127.0.0.1", self.port), timeout=1).close()
                except OSError:
                    pass
            self.thread.join(timeout=12)
            try:
                self.sock.close()
            except OSError:
                pass


def documents():
    """the four introspection documents shipped with the CLI: operation name -> text"""
    d = os.path.join(vlib.REPO, "graphql_client_cli", "src", "graphql")
    out = {}
    for f in os.listdir(d):
        if f.startswith("introspection_query"):
            t = open(os.path.join(d, f)).read()
            m = re.search(r"query\s+(\w+)", t)
            if m:
                out[m.group(1)] = t
    return out


def served_schema():
    tr = lambda b, q=(): {"q": list(q), "base": b}
    return {"types": [
        {"kind": "SCALAR", "name": "Date"},
        {"kind": "ENUM", "name": "Color", "values": ["RED", "GREEN"]},
        {"kind": "INTERFACE", "name": "Node", "fields": [{"name": "id", "type": tr("ID", ["R"]), "dep": None}]},
        {"kind": "OBJECT", "name": "A", "interfaces": ["Node"], "fields": [
            {"name": "id", "type": tr("ID", ["R"]), "dep": None}, {"name": "name", "type": tr("String"), "dep": {"reason": "old"}},
            {"name": "tags", "type": tr("String", ["R", "L", "R"]), "dep": None}, {"name": "color", "type": tr("Color"), "dep": None}]},
        {"kind": "INPUT_OBJECT", "name": "By", "oneOf": True, "inputFields": [{"name": "id", "type": tr("ID")}, {"name": "name", "type": tr("String")}]},
        {"kind": "OBJECT", "name": "Query", "interfaces": [], "fields": [
            {"name": "a", "type": tr("A"), "dep": None, "args": [{"name": "by", "type": tr("By")}]},
            {"name": "node", "type": tr("Node"), "dep": None}]},
    ], "roots": {"query": "Query"}, "explicit_roots": False}


QUERY = "query Q($by: By) {\n  a(by: $by) { id name tags color }\n  node { __typename id }\n}\n"


def pick(cases, rng, n):
    def feats(c):
        items = [("oneof", c["isOneOf"]), ("url", c["specifyByUrl"]), ("auth", c["auth"]), ("out", c["output"]),
                 ("existing", c["existing"]), ("server", c["server"]),
                 ("headers", "|".join(h["text"] for h in c["headers"]))]
        return {(a, b) for i, a in enumerate(items) for b in items[i + 1:]}
    fs = [feats(c) for c in cases]
    uncovered = set().union(*fs)
    chosen, idx = [], set(range(len(cases)))
    # mandatory core: every server behaviour x every kind of destination with ACCEPTABLE arguments (in a pairwise
    # cover a pair may be "covered" by a run that fails early for another reason and so shows nothing about it)
    core = {}
    for i, c in enumerate(cases):
        if c["headersOk"]:
            k = (c["server"], c["output"], c["existing"])
            if k not in core or (len(c["headers"]), c["auth"] != "") < (len(cases[core[k]]["headers"]), cases[core[k]]["auth"] != ""):
                core[k] = i
    for k in sorted(core):
        i = core[k]
        chosen.append(cases[i])
        uncovered -= fs[i]
        idx.discard(i)
    n = max(n, len(chosen) + 40)
    while uncovered and len(chosen) < n:
        best = max(idx, key=lambda i: len(fs[i] & uncovered))
        if not fs[best] & uncovered:
            break
        chosen.append(cases[best])
        uncovered -= fs[best]
        idx.discard(best)
    fill = n - len(chosen)
    if fill > 0:
        chosen += [cases[i] for i in rng.sample(sorted(idx), min(fill, len(idx)))]
    return chosen, len(uncovered)


def main(tier, replay=None, selftest=False):
    ck = Check(PROP, tier)
    vlib.build_harness()
    c19.build_cli()
    rng = random.Random(vlib.seed())
    res = vlib.run_tlc("MC_C20", "MC_C20.cfg", workers=4, timeout=900)
    ck.add_tlc(res)
    if res["violated"]:
        raise ToolError("MC_C20: %s violated with OpenOutputEarly = FALSE" % res["violated"])
    vlib.tlc_must_pass(res)
    res2 = vlib.run_tlc("MC_C20", "MC_C20_asis.cfg", workers=2, timeout=600)
    ck.add_tlc(res2)
    if res2["violated"] != "FailureLeavesFile":
        raise ToolError("the model with OpenOutputEarly = TRUE should violate FailureLeavesFile")
    cases = sorted(res["cases"]["CASE"], key=lambda c: json.dumps(c, sort_keys=True))
    if replay:
        sel, left = [json.load(open(replay))["case"]], 0
    else:
        sel, left = pick(cases, rng, 110 if tier == "quick" else 2500)
    ck.notes["pairs_left_uncovered"] = left
    docs = documents()
    schema = served_schema()
    served = render.introspection_json(schema, wrapped=True, include_builtins=True, include_introspection_types=True)
    base = os.path.join(vlib.WORK, "c20")
    shutil.rmtree(base, ignore_errors=True)
    os.makedirs(base)
    sdl_path = os.path.join(base, "served.graphql")
    open(sdl_path, "w").write(render.sdl(schema))
    trace, written_files = [], []
    st_done = False
    for n, c in enumerate(sel):
        ck.count()
        out = os.path.join(base, "out_%d.json" % n)
        if c["existing"]:
            open(out, "w").write(OLD)
        mock = Mock(c["server"], served)
        args = [c19.CLI, "introspect-schema", "http://127.0.0.1:%d/graphql" % mock.port]
        if c["output"] == "file":
            args += ["--output", out]
        if c["auth"]:
            args += ["--authorization", c["auth"]]
        for h in c["headers"]:
            args += ["--header", expand(h["text"])]
        if c["isOneOf"]:
            args += ["--is-one-of"]
        if c["specifyByUrl"]:
            args += ["--specify-by-url"]
        try:
            p = subprocess.run(args, stdout=subprocess.PIPE, stderr=subprocess.PIPE, text=True, timeout=60,
                               env=dict(os.environ, NO_PROXY="127.0.0.1", no_proxy="127.0.0.1", RUST_LOG="off"))
            rc, so, se = p.returncode, p.stdout, p.stderr
        except subprocess.TimeoutExpired:
            rc, so, se = -999, "", "timeout"
        mock.close()
        req = mock.request
        problems = []
        ok_expected = c["exit"] == 0
        # ---- exit status
        if ok_expected != (rc == 0):
            problems.append("exit status %s, expected %s (%s)" % (rc, "0" if ok_expected else "non-zero", se[-200:].strip()))
        # ---- request
        req_doc = "none"
        if not c["headersOk"]:
            if req is not None:
                problems.append("a request was sent although a --header argument must be refused")
        elif c["server"] != "refused":
            if len(mock.requests) > 1:
                problems.append("the endpoint received %d requests, the command makes exactly one (the later ones: %s)" % (
                    len(mock.requests), [json.loads(r["body"]).get("operationName") if r["body"].startswith("{") else "?" for r in mock.requests[1:]]))
            if req is None:
                problems.append("no request reached the server")
            else:
                if not req["line"].startswith("POST "):
                    problems.append("request line %r is not a POST" % req["line"])
                # "one JSON body": it is labelled as such
                ctype = [v for k, v in req["headers"] if k.lower() == "content-type"]
                if not any(v.lower().startswith("application/json") for v in ctype):
                    problems.append("the JSON body is sent with Content-Type %s" % (ctype or "missing"))
                try:
                    body = json.loads(req["body"])
                except ValueError:
                    body = None
                if not isinstance(body, dict) or sorted(body) != ["operationName", "query", "variables"]:
                    problems.append("request body is not one JSON object with query / operationName / variables: %r" % req["body"][:200])
                else:
                    req_doc = body["operationName"]
                    want = c["request"]
                    if body["operationName"] != want:
                        problems.append("operationName %r, flags select %r" % (body["operationName"], want))
                    if docs.get(want) is not None and body["query"] != docs[want]:
                        problems.append("query text is not the %s document" % want)
                    if ("isOneOf" in body["query"]) != c["isOneOf"] or ("specifiedByURL" in body["query"]) != c["specifyByUrl"]:
                        problems.append("query asks for isOneOf=%s specifiedByURL=%s, flags say %s / %s" % (
                            "isOneOf" in body["query"], "specifiedByURL" in body["query"], c["isOneOf"], c["specifyByUrl"]))
                    m = re.search(r"(query|mutation)\s+(\w+)", body["query"])
                    if not m or m.group(2) != body["operationName"]:
                        problems.append("operationName %r is not the operation defined in the document" % body["operationName"])
                hs = [(k.lower(), v) for k, v in req["headers"]]
                for h in c["headers"]:
                    if (h["name"].lower(), h["value"]) not in hs:
                        problems.append("header %r did not arrive as (%s, %s): got %s" % (
                            expand(h["text"]), h["name"], h["value"], [x for x in hs if x[0] == h["name"].lower()]))
                if c["auth"] and ("authorization", "Bearer " + c["auth"]) not in hs:
                    problems.append("bearer authorization missing: %s" % [x for x in hs if x[0] == "authorization"])
                if not c["auth"] and any(k == "authorization" for k, _ in hs):
                    problems.append("an Authorization header was sent without --authorization")
        # ---- output
        file_state = "absent"
        if os.path.exists(out):
            content = open(out).read()
            if content == OLD:
                file_state = "old"
            elif content == "":
                file_state = "empty"
            else:
                try:
                    file_state = "json" if json.loads(content) == json.loads(served) else "otherjson"
                except ValueError:
                    file_state = "corrupt"
        stdout_json = False
        if c["output"] == "stdout" and so.strip():
            try:
                stdout_json = json.loads(so) == json.loads(served)
            except ValueError:
                stdout_json = False
        if ok_expected:
            if c["output"] == "file" and file_state != "json":
                problems.append("output file is `%s`, expected the server's JSON" % file_state)
            if c["output"] == "stdout" and not stdout_json:
                problems.append("stdout is not the server's JSON")
            if c["output"] == "file" and file_state == "json":
                written_files.append((n, out))
        else:
            if c["existing"] and file_state != "old":
                problems.append("the existing output file was not left untouched (now `%s`)" % file_state)
        if selftest and not st_done and c["output"] == "file" and (c["existing"] or rc == 0):
            file_state, st_done = "corrupt", True     # a record whose file state the specification constrains
        trace.append({"isOneOf": c["isOneOf"], "specifyByUrl": c["specifyByUrl"], "auth": c["auth"], "headers": c["headers"],
                      "output": c["output"], "existing": c["existing"], "server": c["server"],
                      "obs": {"exit": 0 if rc == 0 else (2 if rc == 2 else 1), "file": file_state, "request": req_doc if req is not None else "none",
                              "stdoutJson": stdout_json}})
        if len(ck.cov["samples"]) < 3:
            ck.sample({"argv": args[1:], "server": c["server"], "existing_output": c["existing"], "exit": rc, "file_after": file_state})
        if problems:
            ck.violation("run-%s" % vlib.stable_hash(c), {"case": c, "argv": args[1:], "stderr": se[-500:], "request": req, "problems": problems},
                         "C20 [server %s, output %s%s, headers %s]: %s" % (c["server"], c["output"], " (existing)" if c["existing"] else "",
                                                                          [expand(h["text"]) for h in c["headers"]], "; ".join(problems)),
                         case_key="%s|%s|%s" % (c["server"], c["output"], "existing" if c["existing"] else "new"))
    # ---- the written file generates the same code as the server's SDL
    if written_files:
        n, out = written_files[0]
        fixed = os.path.join(base, "written.json")
        shutil.copy(out, fixed)
        jobs = [{"id": "json", "schema_path": fixed, "query": QUERY, "options": {"mode": "cli"}, "want_tokens": True},
                {"id": "sdl", "schema_path": sdl_path, "query": QUERY, "options": {"mode": "cli"}, "want_tokens": True}]
        rs, _ = vlib.gqlv("gen", jobs)
        ck.count()
        if rs[0].get("tokens") != rs[1].get("tokens") or rs[0]["status"] != "ok":
            ck.violation("codegen-equivalence", {"json": {k: v for k, v in rs[0].items() if k != "tokens"}, "sdl": {k: v for k, v in rs[1].items() if k != "tokens"}},
                         "C20: the introspected file does not generate the same code as the server's SDL (%s vs %s)" % (rs[0]["status"], rs[1]["status"]),
                         case_key="codegen")
    # ---- trace validation
    tpath = os.path.join(base, "trace.ndjson")
    with open(tpath, "w") as f:
        for e in trace:
            f.write(json.dumps(e) + "\n")
    rt = vlib.run_tlc("Trace_C20", "Trace_C20.cfg", env={"TRACE": tpath}, dfs=True, timeout=900)
    ck.add_tlc(rt)
    if not rt["ok"]:
        m = re.search(r'"UNMATCHED", (\d+)', rt["out"])
        k = int(m.group(1)) if m else 0
        bad = trace[k - 1] if 0 < k <= len(trace) else None
        ck.violation("trace-%s" % vlib.stable_hash(bad), {"event": bad, "tlc": rt["out"][-800:]},
                     "C20: recorded run is not an outcome of Introspect.tla (OpenOutputEarly = FALSE): %s" % json.dumps(bad)[:500],
                     case_key="trace|%s" % (bad or {}).get("server"))
    for f in os.listdir(base):
        if f.startswith("out_"):
            os.remove(os.path.join(base, f))
    ck.assumptions += ["loopback HTTP only (no TLS, redirects, proxies); header names compared case-insensitively, values exactly",
                       "the existing output file is longer than any reply, so a missing truncation shows as corruption"]
    return ck.finish(exhaustive=False, rule="TLC: every scenario (2x2 flags, bearer, 13 header strings and pairs incl. repeated names, output target and prior state, 8 server behaviours); "
                                            "replayed: covering sample of real runs against a loopback mock")


if __name__ == "__main__":
    sys.exit(main("quick"))
