"""Re-run, against every stored seeded change, the check(s) recorded as catching it (after the checks
have changed) and record the outcome in its meta.json.  Applies each patch to /repo and always
reverts it; run nothing else against /repo meanwhile.
usage: revalidate_seeds.py [seed ids...]"""
import json, os, subprocess, sys, time

DST = "/verif/seeded"
only = sys.argv[1:]
bad = []
for sid in sorted(os.listdir(DST)):
    d = os.path.join(DST, sid)
    mp = os.path.join(d, "meta.json")
    if not os.path.isfile(mp) or (only and sid not in only):
        continue
    m = json.load(open(mp))
    # the deciding checks: those that reported it when it was assembled (at least the property's own, if it did)
    checks = [k for k, r in m["checks_run_against_it"].items() if r["exit"] == 1 and r["violation_lines"] > 0]
    if not checks:
        checks = [m["property"]]
    patch = os.path.join(d, "patch.diff")
    if subprocess.run(["git", "-C", "/repo", "apply", "--check", patch]).returncode != 0:
        print(sid, "PATCH DOES NOT APPLY", flush=True)
        bad.append(sid)
        continue
    res = {}
    for chk in checks:
        subprocess.run(["git", "-C", "/repo", "apply", patch], check=True)
        t0 = time.time()
        try:
            p = subprocess.run(["./check", chk, "--tier", "quick"], cwd="/verif", stdout=subprocess.PIPE, stderr=subprocess.PIPE,
                               text=True, timeout=1800, env=dict(os.environ, VERIF_REPLAYING="1"))
            rc, out = p.returncode, p.stdout
        except subprocess.TimeoutExpired:
            rc, out = 2, ""
        finally:
            subprocess.run(["git", "-C", "/repo", "checkout", "--", "."], check=True)
        nv = len([l for l in out.splitlines() if l.startswith("VIOLATION")])
        res[chk] = {"exit": rc, "violation_lines": nv, "wall_s": round(time.time() - t0)}
    ok = any(r["exit"] == 1 and r["violation_lines"] > 0 for r in res.values())
    m["revalidated"] = {"against": subprocess.run(["git", "-C", "/verif", "log", "--format=%h", "-1"], capture_output=True, text=True).stdout.strip(),
                        "results": res, "still_caught": ok}
    json.dump(m, open(mp, "w"), indent=1)
    print(sid, "ok" if ok else "NOT CAUGHT ANY MORE", res, flush=True)
    if not ok:
        bad.append(sid)
print("done;", len(bad), "problems:", bad)
