"""C08 - codegen is a pure function of its inputs across calls, threads and processes.

Cache.tla / MC_C08: TLC explores every call history (one thread) and every
interleaving of lock acquisitions (2-3 threads) of the cache design and checks
Purity.  The driver
  (a) replays TLC's histories in one driver process each,
  (b) forces TLC's lock-acquisition orders onto real threads (turn-taking hooks),
  (c) runs free-running thread sets,
compares every outcome with the same call made alone in a FRESH process, and
validates the recorded event traces against the specification with TLC
(Trace_C08).
"""
import json, os, random, subprocess, sys, time
import vlib
from vlib import Check, ToolError

PROP = "C08"

SCHEMA_A = '''schema { query: Query }
scalar Date
scalar Url
enum Color { RED GREEN BLUE }
enum Size { S M L }
enum Mood { HAPPY SAD }
enum Dir { N E S W }
interface Node { id: ID! }
input Filter { color: Color size: Size mood: Mood and: [Filter!] not: Filter range: Range }
input Search { filter: Filter paging: Paging }
input Range { from: Date to: Date dir: Dir }
input Paging { first: Int after: ID }
input Sort { by: String dir: Dir }
type Person implements Node { id: ID! name: String color: Color size: Size mood: Mood dir: Dir born: Date site: Url friends: [Person!] pet: Pet }
type Cat implements Node { id: ID! name: String lives: Int! }
type Dog implements Node { id: ID! name: String good: Boolean! }
union Pet = Cat | Dog
type Query { me(f: Filter, p: Paging, s: Sort, q: Search): Person! node(id: ID!): Node people(f: Filter): [Person!] }
'''
# schema B: other nullability AND shifted positions (an extra scalar / enum in front, reordered enums, an extra
# first field), so that anything remembered about schema A (type / field indices) is wrong for B
SCHEMA_B = (SCHEMA_A.replace("lives: Int!", "lives: Int").replace("name: String color", "nickname: Int name: String! color")
            .replace("scalar Date\n", "scalar Extra\nenum Zed { Z }\nscalar Date\n")
            .replace("enum Color { RED GREEN BLUE }\nenum Size { S M L }\n", "enum Size { S M L }\nenum Color { RED GREEN BLUE }\n")
            .replace("input Filter {", "input Pre { x: Int }\ninput Filter {")
            .replace("not: Filter", "not: Range")          # same input name, recursive in A, flat in B
            .replace("interface Node { id: ID! }", "interface Named { name: String }\ninterface Node { id: ID! }")
            .replace("type Person implements Node { id: ID!", "type Other { x: Int }\ntype Person implements Node { extra: Int id: ID!"))
assert "not: Range" in SCHEMA_B and SCHEMA_B.count("Extra") == 1 and "nickname" in SCHEMA_B and "type Other" in SCHEMA_B and "input Pre" in SCHEMA_B

QUERY_A = '''query Main($f: Filter, $p: Paging, $s: Sort, $d: Date, $q: Search) {
  me(f: $f, p: $p, s: $s, q: $q) {
    ...PersonBits
    ...Looks
    friends { ...PersonBits site }
    pet { __typename ...CatBits ...DogBits }
  }
  node(id: "1") { __typename id ... on Person { ...Looks } }
}

fragment PersonBits on Person { id name born }
fragment Looks on Person { color size mood dir }
fragment CatBits on Cat { id lives }
fragment DogBits on Dog { id good }
'''
QUERY_B = '''query Main($f: Filter) {
  people(f: $f) { id name mood dir }
}
'''

OPTS = {
    "o1": {"mode": "cli"},
    "o2": {"mode": "cli", "normalization": "rust", "response_derives": "std::fmt::Debug, PartialEq, std::clone::Clone, core::cmp::Eq", "variables_derives": "std::fmt::Debug, core::clone::Clone, std::cmp::PartialEq"},
    "o3": {"mode": "cli", "fragments_other_variant": True, "skip_serializing_none": True},
}


def fixtures(workdir):
    import render
    fx = os.path.join(workdir, "fx")
    for d in ("a", "a/x", "b", "b/sub", "copy"):
        os.makedirs(os.path.join(fx, d), exist_ok=True)
    w = vlib.write_if_changed
    w(os.path.join(fx, "a", "ops.graphql"), QUERY_A)
    w(os.path.join(fx, "copy", "ops_copy.graphql"), QUERY_A)
    w(os.path.join(fx, "b", "ops.graphql"), QUERY_B)
    w(os.path.join(fx, "b", "sub", "ops.graphql"), QUERY_A)
    # failing loads take a few milliseconds (other threads are then really waiting for the lock when the loader panics)
    w(os.path.join(fx, "bad.graphql"), "query Main { me { " + " ".join("a%d: id" % k for k in range(4000)) + " ")
    w(os.path.join(fx, "a", "invalid.graphql"), "query Main { me { friends { friends { friends { friends { nope } } } } } }\n")
    w(os.path.join(fx, "a", "deep.graphql"), "query Main { me " + "{ friends " * 30 + "{ id }" + " }" * 30 + " }\n")
    w(os.path.join(fx, "a", "schema.graphql"), SCHEMA_A)
    w(os.path.join(fx, "b", "schema.graphql"), SCHEMA_B)
    w(os.path.join(fx, "bad_schema.graphql"), "".join("type T%d { a: Int b: [T%d!] }\n" % (k, k) for k in range(3000)) + "type Query { me: ")
    w(os.path.join(fx, "schema.txt"), SCHEMA_A)
    # the same schema as introspection JSON, produced from the SDL through the abstract schema of render.py
    sj = sdl_to_abstract(SCHEMA_A)
    w(os.path.join(fx, "a", "schema.json"), render.introspection_json(sj))
    return {
        "q1": os.path.join(fx, "a", "ops.graphql"), "q1copy": os.path.join(fx, "copy", "ops_copy.graphql"),
        "q1dot": os.path.join(fx, "a", "x", "..", "ops.graphql"), "q2": os.path.join(fx, "b", "ops.graphql"),
        "q1rel": "ops.graphql", "q2rel": os.path.join("..", "ops.graphql"),     # relative to CWD = fx/b/sub
        "cwd": os.path.join(fx, "b", "sub"),
        "qmissing": os.path.join(fx, "a", "nothere.graphql"), "qbad": os.path.join(fx, "bad.graphql"),
        "qinvalid": os.path.join(fx, "a", "invalid.graphql"), "qdeep": os.path.join(fx, "a", "deep.graphql"),
        "s1": os.path.join(fx, "a", "schema.graphql"), "s1json": os.path.join(fx, "a", "schema.json"),
        "s2": os.path.join(fx, "b", "schema.graphql"), "smissing": os.path.join(fx, "b", "nothere.graphql"),
        "sbad": os.path.join(fx, "bad_schema.graphql"), "sext": os.path.join(fx, "schema.txt"),
    }


def sdl_to_abstract(sdl):
    """Tiny SDL reader for the fixture above (one definition per line)."""
    import re
    types, roots = [], {}

    def tref(t):
        t = t.strip()
        q = []
        while True:
            if t.endswith("!"):
                q.append("R")
                t = t[:-1]
            elif t.startswith("["):
                q.append("L")
                t = t[1:-1]
            else:
                return {"q": q, "base": t}

    def fields(body):
        out = []
        for m in re.finditer(r"(\w+)(\([^)]*\))?\s*:\s*([\[\]\w!]+)", body):
            args = []
            if m.group(2):
                for a in re.finditer(r"(\w+)\s*:\s*([\[\]\w!]+)", m.group(2)):
                    args.append({"name": a.group(1), "type": tref(a.group(2))})
            out.append({"name": m.group(1), "type": tref(m.group(3)), "args": args, "dep": None})
        return out
    for line in sdl.splitlines():
        line = line.strip()
        if line.startswith("schema"):
            roots = dict(re.findall(r"(query|mutation|subscription)\s*:\s*(\w+)", line))
        elif line.startswith("scalar"):
            types.append({"kind": "SCALAR", "name": line.split()[1]})
        elif line.startswith("enum"):
            m = re.match(r"enum (\w+) \{(.*)\}", line)
            types.append({"kind": "ENUM", "name": m.group(1), "values": m.group(2).split()})
        elif line.startswith("union"):
            m = re.match(r"union (\w+) = (.*)", line)
            types.append({"kind": "UNION", "name": m.group(1), "members": [x.strip() for x in m.group(2).split("|")]})
        elif line.startswith("interface"):
            m = re.match(r"interface (\w+) \{(.*)\}", line)
            types.append({"kind": "INTERFACE", "name": m.group(1), "fields": fields(m.group(2))})
        elif line.startswith("input"):
            m = re.match(r"input (\w+) \{(.*)\}", line)
            types.append({"kind": "INPUT_OBJECT", "name": m.group(1),
                          "inputFields": [{"name": f["name"], "type": f["type"]} for f in fields(m.group(2))]})
        elif line.startswith("type"):
            m = re.match(r"type (\w+)( implements ([\w &]+))? \{(.*)\}", line)
            types.append({"kind": "OBJECT", "name": m.group(1), "fields": fields(m.group(4)),
                          "interfaces": [x.strip() for x in (m.group(3) or "").split("&") if x.strip()]})
    return {"types": types, "roots": {k: roots.get(k) for k in ("query", "mutation", "subscription")},
            "explicit_roots": True}


def call_job(universe, paths, call):
    d = universe["calls"][call]
    return {"id": call, "schema_path": paths[d["s"]], "query_path": paths[d["q"]], "options": OPTS[d["o"]],
            "want_tokens": True}


def outcome_of(r):
    if r["status"] == "ok":
        return "ok", r["tokens"]
    return r["status"], r.get("msg", "")


def symbol(universe, baselines, call, r):
    """Map an observed result to the model's outcome symbol by comparison with the fresh-process baselines."""
    st, body = outcome_of(r)
    if st != "ok" and "cache is poisoned" in body:
        return "panic:cache is poisoned"
    # same as this call's own baseline?
    for c in [call] + [c for c in baselines if c != call]:
        if baselines[c] == (st, body):
            d = universe["calls"][c]
            fq, fs = universe["files"][d["q"]], universe["files"][d["s"]]
            if fq["status"] != "ok":
                return "panic:query:" + fq["status"]
            if fs["status"] != "ok":
                return "panic:schema:" + fs["status"]
            return "ok:%s/%s/%s" % (fq["content"], fs["content"], d["o"])
    return "%s:?unlike-any-fresh-process-result" % st


_HANGS = [0]


def run_plan(universe, paths, plan, schedule):
    """plan: {"t1": [calls], ...}; one fresh gqlv process."""
    threads = []
    for t in sorted(plan):
        threads.append({"id": int(t[1:]), "calls": [{"call": c, "job": call_job(universe, paths, c)} for c in plan[t]]})
    job = {"id": 0, "threads": threads, "schedule": [int(t[1:]) for t in schedule] if schedule else None}
    if _HANGS[0] >= 3:
        return {"skipped": True}       # three runs already hung: the verdict is in, do not wait for hundreds more
    res = vlib.gqlv_isolated("threads", job, timeout=30, cwd=paths["cwd"])
    if res.get("timeout"):
        _HANGS[0] += 1
    return res


def fold_events(plan, run, universe, baselines):
    """hook events of one run -> spec-level trace events (see Trace_C08.tla), in sequence order."""
    evs = sorted(run["events"], key=lambda e: e["seq"])
    out = [{"a": "Reset", "plan": plan, "t": "", "call": "", "c": "", "kind": "", "outcome": ""}]
    results = {t: list(rs) for t, rs in run["results"].items() if t != "thread_died"}
    pos = {t: 0 for t in results}
    window = {}   # (thread, cache) -> loaded?

    def ev(a, t="", call="", c="", kind="", outcome=""):
        return {"a": a, "plan": {}, "t": t, "call": call, "c": c, "kind": kind, "outcome": outcome}
    open_acq = {}
    for e in evs:
        t, c = e["thread"], e["cache"]
        if e["event"] == "CallBegin":
            out.append(ev("Begin", t, e["key"]))
            open_acq[t] = 0
        elif e["event"] == "Acquire":
            out.append(ev("Acquire", t, c=c))
            window[(t, c)] = "hit"
            open_acq[t] = open_acq.get(t, 0) + 1
        elif e["event"] == "LoadOk":
            out.append(ev("Use", t, c=c, kind="load"))
            window[(t, c)] = "loaded"
        elif e["event"] == "Release":
            if e["panicking"]:
                out.append(ev("Use", t, c=c, kind="panic"))
            else:
                if window.get((t, c)) == "hit":
                    out.append(ev("Use", t, c=c, kind="hit"))
                out.append(ev("Release", t, c=c))
        elif e["event"] == "CallEnd":
            r = results[t][pos[t]]
            pos[t] += 1
            sym = symbol(universe, baselines, r["call"], r)
            if sym == "panic:cache is poisoned":
                out.append(ev("Poisoned", t))
            out.append(ev("End", t, r["call"], outcome=sym))
    return out


def suite_part(ck, selftest=False):
    """the rustc processes that compile the repository's own test crates: each runs its derives one after
    the other over the fixture files - a one-thread call history whose cache events (first use loads, later
    uses hit, nothing is ever poisoned) are validated against Cache.tla by TLC (Trace_Suite), and whose
    results must equal the same call made alone in a fresh process"""
    import suite
    lines = suite.record()
    if not lines:
        raise ToolError("no derive events from the repository's test crates")
    # fresh-process baselines, one isolated process per distinct call
    base = {}
    for k, ln in enumerate(lines):
        key = json.dumps([ln["query_path"], ln["schema_path"], ln["dump"], ln["ident"]])
        if key in base or ln["status"] == "options_err":
            continue
        job = {"id": k, "schema_path": ln["schema_path"], "query_path": ln["query_path"],
               "options": suite.options_from_event(ln), "want_tokens": True}
        r = vlib.gqlv_isolated("gen", job, timeout=60)
        base[key] = r.get("result") or {"status": "crash", "msg": str(r)[:200]}
    nj, idx = [], {}
    for k, ln in enumerate(lines):
        b = base.get(json.dumps([ln["query_path"], ln["schema_path"], ln["dump"], ln["ident"]]))
        if b and b.get("status") == "ok" and ln["status"] == "ok":
            nj.append({"id": "b%d" % k, "tokens": b["tokens"]})
            nj.append({"id": "d%d" % k, "tokens": ln["tokens"]})
    norm = {x["id"]: x.get("norm") for x in vlib.gqlv("normtokens", nj)[0]} if nj else {}

    def symbol_of(k, ln, pure):
        b = base.get(json.dumps([ln["query_path"], ln["schema_path"], ln["dump"], ln["ident"]])) or {}
        ck.count()
        same = b.get("status") == ln["status"] and (ln["status"] != "ok" or (
            norm.get("b%d" % k) is not None and norm.get("b%d" % k) == norm.get("d%d" % k)))
        if same and ln["status"] == "ok":
            return pure
        if same:
            return "refused"         # both refuse: not a behaviour the cache model classifies; the call is skipped below
        ck.violation("suite-purity-%s-%d" % (ln["ident"], k), {"kind": "suite", "struct": ln["ident"], "query_path": ln["query_path"],
                                                             "schema_path": ln["schema_path"], "in_rustc_process": ln["status"],
                                                             "fresh_process": b.get("status"), "fresh_msg": b.get("msg")},
                     "C08 (repository test crates): the derive on `%s` inside its rustc process (%d-th call there) gave %s, the same call alone in a fresh process %s" % (
                         ln["ident"], k, ln["status"], b.get("status")), case_key="suite-purity")
        return "differs"
    universe, trace, nproc = suite.cache_universe_and_trace(lines, symbol_of)
    if any(e["outcome"] == "refused" for e in trace):
        raise ToolError("a derive of the repository's own tests is refused by the generator: %s" % [l["ident"] for l in lines if l["status"] != "ok"][:3])
    if selftest:
        i = next(k for k, e in enumerate(trace) if e["a"] == "Use" and e["kind"] == "hit")
        trace[i] = dict(trace[i], kind="load")
    wd = os.path.join(vlib.WORK, "suite")
    upath, tpath = os.path.join(wd, "universe.ndjson"), os.path.join(wd, "cache_trace.ndjson")
    open(upath, "w").write(json.dumps(universe) + "\n")
    with open(tpath, "w") as f:
        for e in trace:
            f.write(json.dumps(e) + "\n")
    res = vlib.run_tlc("Trace_Suite", "Trace_Suite.cfg", env={"TRACE": tpath, "UNIVERSE": upath}, dfs=True, timeout=900)
    ck.add_tlc(res)
    ck.notes["repository_test_crates"] = {"rustc_processes": nproc, "derives": len(lines), "cache_trace_events": len(trace),
                                          "distinct_files": len(universe["files"])}
    if not res["ok"]:
        import re
        m = re.search(r'"UNMATCHED", (\d+)', res["out"])
        k = int(m.group(1)) if m else 1
        start = max([i for i in range(len(trace)) if trace[i]["a"] == "Reset" and i < k] or [0])
        ck.violation("suite-trace-%s" % vlib.stable_hash(trace[start]["plan"]),
                     {"kind": "suite-trace", "plan": trace[start]["plan"], "unmatched_event_index": k, "events_before": trace[max(0, k - 8):k + 1],
                      "calls": {c: universe["calls"][c] for c in trace[start]["plan"]["t0"]}, "violated": res["violated"], "tlc": res["out"][-1200:]},
                     "C08 (repository test crates): the cache events of a rustc process are not a behaviour of Cache.tla (%s): event %d %s" % (
                         res["violated"] or "trace rejected", k, json.dumps(trace[min(k - 1, len(trace) - 1)])), case_key="suite-trace")



def proof_part(ck, tier, selftest=False):
    """TLAPS: the machine-checked proof (spec/proofs/CacheProof.tla) that Cache.tla has Purity, MutualExclusion and
    CacheFaithful for every thread set, plan, call table and file table, given PoisonRecovery = TRUE.  The proof is
    about the same module the traces of the real code are validated against.  Negative control (thorough tier):
    without the assumption PoisonRecovery = TRUE the proof must NOT go through (that is defect D1)."""
    import re, shutil
    tl = shutil.which("tlapm")
    if not tl:
        ck.notes["tlaps"] = "tlapm not installed: proof not replayed"
        return
    def run(tag, mutate=None):
        d = os.path.join(vlib.WORK, "c08", "proof_" + tag)
        shutil.rmtree(d, ignore_errors=True)
        os.makedirs(d)
        shutil.copy(os.path.join(vlib.SPEC, "Cache.tla"), d)
        src = open(os.path.join(vlib.SPEC, "proofs", "CacheProof.tla")).read()
        if mutate:
            src = mutate(src)
        open(os.path.join(d, "CacheProof.tla"), "w").write(src)
        t0 = time.time()
        pr = vlib.sh([tl, "--threads", "8", "--stretch", "3", "--cleanfp", "CacheProof.tla"], cwd=d, timeout=1500)
        out = pr.stdout + "\n" + pr.stderr
        if pr.returncode != 0 and not mutate:
            # a loaded machine can make a back-end time out: once more with longer timeouts (proved obligations are
            # kept in the fingerprint file, only the failed ones are tried again)
            pr = vlib.sh([tl, "--threads", "4", "--stretch", "10", "CacheProof.tla"], cwd=d, timeout=2400)
            out = pr.stdout + "\n" + pr.stderr
        m = re.search(r"All (\d+) obligations? proved", out)
        f = re.search(r"(\d+)/(\d+) obligations? failed", out)
        shutil.rmtree(os.path.join(d, ".tlacache"), ignore_errors=True)
        return {"proved_all": bool(m) and pr.returncode == 0, "obligations": int(m.group(1)) if m else (int(f.group(2)) if f else 0),
                "failed": int(f.group(1)) if f else 0, "wall_s": round(time.time() - t0, 1), "tail": out[-600:]}
    r = run("main")
    vlib.log("[tlaps] CacheProof: %s" % {k: v for k, v in r.items() if k != "tail"})
    if not r["proved_all"] or "OMITTED" in open(os.path.join(vlib.SPEC, "proofs", "CacheProof.tla")).read():
        raise ToolError("TLAPS proof of Cache.tla did not go through (%d failed):\n%s" % (r["failed"], r["tail"]))
    ck.notes["tlaps"] = {"theorem": "Spec => [](Purity /\\ MutualExclusion /\\ CacheFaithful), any Threads / PlanSet / CallDef / Files, PoisonRecovery = TRUE",
                         "obligations_proved": r["obligations"], "wall_s": r["wall_s"]}
    if tier == "thorough" or selftest:
        n = run("neg", lambda src: src.replace("/\\ PoisonRecovery = TRUE", "/\\ PoisonRecovery \\in BOOLEAN"))
        vlib.log("[tlaps] negative control: %s" % {k: v for k, v in n.items() if k != "tail"})
        if n["proved_all"]:
            raise ToolError("TLAPS negative control: the proof goes through without PoisonRecovery = TRUE (vacuous proof?)")
        ck.notes["tlaps"]["negative_control"] = "without PoisonRecovery = TRUE %d of %d obligations fail (AcquireQ / AcquireS)" % (n["failed"], n["obligations"])

def main(tier, replay=None, selftest=False):
    ck = Check(PROP, tier)
    vlib.build_harness()
    workdir = os.path.join(vlib.WORK, "c08")
    os.makedirs(workdir, exist_ok=True)
    rng = random.Random(vlib.seed())
    # ---- model
    res_h = vlib.run_tlc("MC_C08", "MC_C08_hist_%s.cfg" % tier, workers=8, heap="8g", timeout=2400)
    ck.add_tlc(res_h)
    if res_h["violated"]:
        raise ToolError("MC_C08 histories: %s violated in the model with PoisonRecovery = TRUE" % res_h["violated"])
    vlib.tlc_must_pass(res_h)
    res_s = vlib.run_tlc("MC_C08", "MC_C08_sched_%s.cfg" % tier, workers=8, heap="12g", timeout=2400)
    ck.add_tlc(res_s)
    if res_s["violated"]:
        raise ToolError("MC_C08 schedules: %s violated in the model" % res_s["violated"])
    vlib.tlc_must_pass(res_s)
    universe = res_h["cases"]["UNIVERSE"][0]
    paths = fixtures(workdir)
    calls = sorted(universe["calls"])
    # ---- fresh-process baselines
    nfresh = 4 if tier == "quick" else 8
    baselines = {}
    for c in calls:
        seen = []
        for k in range(nfresh):
            r = vlib.gqlv_isolated("gen", call_job(universe, paths, c), timeout=60, cwd=paths["cwd"])
            if r.get("timeout") or r.get("result") is None:
                raise ToolError("fresh-process baseline for %s did not finish: %s" % (c, r))
            seen.append(outcome_of(r["result"]))
        ck.count()
        if any(s != seen[0] for s in seen):
            ck.violation("fresh-%s" % c, {"call": c, "job": call_job(universe, paths, c), "distinct_results": len(set(seen))},
                         "C08: call `%s` gives different token streams in different fresh processes (%d distinct of %d)" % (
                             c, len(set(seen)), len(seen)), case_key="fresh")
        baselines[c] = seen[0]
        # the model's idea of success / failure must agree with reality, otherwise the universe is wrong
        d = universe["calls"][c]
        model_ok = universe["files"][d["q"]]["status"] == "ok" and universe["files"][d["s"]]["status"] == "ok"
        # (`invalid` loads both files fine and is refused later, by resolution: for the cache model it is a
        # call like any other, whose result - the error - must be the same whatever ran before)
        if c != "invalid" and model_ok != (seen[0][0] == "ok"):
            raise ToolError("fixture/universe mismatch for call %s: model ok=%s, fresh process says %s %s" % (
                c, model_ok, seen[0][0], seen[0][1][:200]))
    # distinct contents must give distinct outputs (otherwise the oracle cannot see a mix-up)
    oks = {}
    for c in calls:
        if baselines[c][0] == "ok":
            d = universe["calls"][c]
            sym = (universe["files"][d["q"]]["content"], universe["files"][d["s"]]["content"], d["o"])
            oks.setdefault(baselines[c][1], set()).add(sym)
    for toks, syms in oks.items():
        if len(syms) > 1:
            raise ToolError("fixture too weak: different inputs %s give identical token streams" % sorted(syms))
    # ---- (a) histories
    hist_cases = res_h["cases"]["CASE"]
    sched_cases = res_s["cases"]["CASE"]
    if tier == "quick":
        short = [c for c in hist_cases if len(c["plan"]["t1"]) <= 2]
        longer = [c for c in hist_cases if len(c["plan"]["t1"]) > 2]
        hist_sel = short + rng.sample(longer, min(260, len(longer)))
        sched_sel = rng.sample(sched_cases, min(220, len(sched_cases)))
        free_runs = [(2, 3), (4, 4), (8, 4), (16, 3)]
    else:
        hist_sel = hist_cases if len(hist_cases) <= 6000 else rng.sample(hist_cases, 6000)
        sched_sel = rng.sample(sched_cases, min(4000, len(sched_cases)))
        free_runs = [(n, 8) for n in (2, 3, 4, 6, 8, 12, 16)] * 3
    if selftest:
        baselines["base"] = ("ok", "selftest")
    trace = []
    nruns = 0

    def check_run(kind, case, run, plan, expect_hist=None):
        nonlocal nruns
        if run.get("skipped"):
            return
        nruns += 1
        name = "%s-%s" % (kind, vlib.stable_hash([plan, case.get("acq")]))
        if run.get("timeout") or run.get("result") is None or run.get("rc") != 0:
            ck.violation(name, {"kind": kind, "plan": plan, "schedule": case.get("acq"), "run": str(run)[:2000]},
                         "C08: driver process did not finish cleanly for plan %s (%s)" % (plan, str(run)[:300]),
                         case_key="crash")
            return
        out = run["result"]
        bad = []
        for t in sorted(plan):
            rs = out["results"].get(t, [])
            if len(rs) != len(plan[t]):
                bad.append("%s ran %d of %d calls" % (t, len(rs), len(plan[t])))
                continue
            for c, r in zip(plan[t], rs):
                ck.count()
                if outcome_of(r) != baselines[c]:
                    st, body = outcome_of(r)
                    bad.append("%s call `%s`: %s %s, alone in a fresh process: %s %s" % (
                        t, c, st, body[:120].replace("\n", " "), baselines[c][0], baselines[c][1][:80].replace("\n", " ")))
        if bad:
            ck.violation(name, {"kind": kind, "plan": plan, "schedule": case.get("acq"), "problems": bad,
                                "events": out["events"][:200]},
                         "C08 (%s): plan %s%s: %s" % (kind, json.dumps(plan), (" schedule %s" % case["acq"]) if case.get("acq") else "",
                                                      "; ".join(bad[:4])), case_key=kind)
        if kind == "schedule":
            got = [e["thread"] for e in sorted(out["events"], key=lambda e: e["seq"]) if e["event"] == "Acquire"]
            if got != case["acq"] and not bad:
                ck.violation(name + "-order", {"kind": kind, "plan": plan, "schedule": case["acq"], "observed_order": got},
                             "C08: lock acquisitions happened in order %s, TLC's schedule was %s" % (got, case["acq"]),
                             case_key="schedule-order")
        trace.extend(fold_events(plan, out, universe, baselines))
        if len(ck.cov["samples"]) < 3:
            ck.sample({"kind": kind, "plan": plan, "schedule": case.get("acq"),
                       "outcomes": {t: [outcome_of(r)[0] for r in rs] for t, rs in out["results"].items()}})
    for c in hist_sel:
        check_run("history", c, run_plan(universe, paths, c["plan"], None), c["plan"])
    for c in sched_sel:
        check_run("schedule", c, run_plan(universe, paths, c["plan"], c["acq"]), c["plan"])
    # soak histories: many failing calls of each kind, then valid ones (nothing a failed call leaves behind - in
    # the caches, in thread-local or global state - may change a later result)
    for plan in ({"t1": ["invalid"] * 30 + ["deep", "base", "both2"]},
                 {"t1": ["qbad"] * 6 + ["smiss"] * 6 + ["sbad"] * 3 + ["deep", "json"]},
                 {"t1": ["invalid"] * 12 + ["deep"], "t2": ["invalid"] * 12 + ["base"]}):
        check_run("soak", {}, run_plan(universe, paths, plan, None), plan)
    okcalls = calls
    for (nt, nc) in free_runs:
        plan = {"t%d" % (i + 1): [rng.choice(okcalls) for _ in range(nc)] for i in range(nt)}
        check_run("free", {}, run_plan(universe, paths, plan, None), plan)
    ck.notes["runs"] = {"histories": len(hist_sel), "schedules": len(sched_sel), "free_running": len(free_runs)}
    # ---- trace validation
    tpath = os.path.join(workdir, "trace.ndjson")
    with open(tpath, "w") as f:
        for e in trace:
            f.write(json.dumps(e) + "\n")
    res_t = vlib.run_tlc("Trace_C08", "Trace_C08.cfg", env={"TRACE": tpath}, dfs=True, heap="8g", timeout=2400)
    ck.add_tlc(res_t)
    ck.notes["trace_events"] = len(trace)
    if not res_t["ok"]:
        import re
        m = re.search(r'"UNMATCHED", (\d+)', res_t["out"])
        k = int(m.group(1)) if m else None
        ctx = trace[max(0, (k or 1) - 8):(k or 1) + 1]
        # find the run it belongs to
        start = max([i for i in range(len(trace)) if trace[i]["a"] == "Reset" and i < (k or 1)] or [0])
        ck.violation("trace-%s" % vlib.stable_hash(trace[start]["plan"]),
                     {"kind": "trace", "plan": trace[start]["plan"], "unmatched_event_index": k, "events_before": ctx,
                      "violated": res_t["violated"], "tlc": res_t["out"][-1200:]},
                     "C08: the recorded trace is not a behaviour of Cache.tla (%s): run with plan %s, first unmatched event %s" % (
                         res_t["violated"] or "event rejected", json.dumps(trace[start]["plan"]), ctx[-1] if ctx else None),
                     case_key="trace")
    suite_part(ck, selftest)
    proof_part(ck, tier)
    ck.assumptions += [
        "unordered-collection nondeterminism is detected probabilistically (%d fresh processes per call; the operation uses 4 enums, 4 inputs, 4 fragments, 2 custom scalars)" % nfresh,
        "schedules are orders of cache-lock acquisitions forced by the turn-taking hook; free-running runs are validated against the specification, not compared with a fixed order",
    ]
    return ck.finish(exhaustive=(tier == "thorough" and len(hist_sel) == len(hist_cases)),
                     rule="TLC: all call histories up to length %d over 13 calls, all lock-acquisition interleavings of %d threads; "
                          "replayed: %d histories, %d schedules, %d free-running thread sets; distinct = distinct (plan, schedule)" % (
                              3 if tier == "quick" else 4, 2 if tier == "quick" else 3, len(hist_sel), len(sched_sel), len(free_runs)))


if __name__ == "__main__":
    sys.exit(main("quick"))
