"""C07 - SDL and introspection JSON of the same schema generate identical code.

MC_C07 (Frontends.tla): TLC enumerates schema variants of the universe family
and pairs of renderings that must agree.  The driver writes each rendering to a
file, generates code for a set of operations (ProgGen documents + a kitchen-sink
operation with variables of input types) against both, and compares the outcomes
literally; across type orders the comparison is modulo item order.
"""
import json, os, random, sys
import vlib, render, prog
from vlib import Check, ToolError

PROP = "C07"

KITCHEN = '''query MyOp($f: Filter, $by: By, $c: Color, $ids: [ID!], $when: Date) {
  me {
    id
    name
    old
    px%s
    color
    colors
    born
    pet { __typename ... on Cat { name lives } ... on Robot { model } }
    node { __typename id name ... on Person { age } }
  }
  nodes { __typename id name }
}
'''

VARS = [{"name": "f", "type": {"q": [], "base": "Filter"}}, {"name": "by", "type": {"q": [], "base": "By"}},
        {"name": "c", "type": {"q": [], "base": "Color"}}, {"name": "ids", "type": {"q": ["L", "R"], "base": "ID"}}]

DEP_ATOMS = {"$quotes": 'say "hi" \\ é ✓'}


def dep_of(d):
    if d == "none":
        return None
    if d == "bare":
        return {"reason": None}
    return {"reason": DEP_ATOMS.get(d, d)}


def apply_variant(base, v):
    s = json.loads(json.dumps(base))
    tr = lambda b, q=(): {"q": list(q), "base": b}
    for t in s["types"]:
        if t["name"] == "Person":
            t["fields"].append({"name": "px", "type": {"q": list(v["px"]), "base": v["pxBase"]}, "args": [
                {"name": "limit", "type": tr("Int"), "default": "10"}], "dep": None, "ext": True})
            for f in t["fields"]:
                if f["name"] == "old":
                    f["dep"] = dep_of(v["depObj"])
        if t["name"] == "Node":
            for f in t["fields"]:
                if f["name"] == "name":
                    f["dep"] = dep_of(v["depIface"])
        if t["name"] == "Robot" and not v["robotNode"]:
            t["interfaces"] = [i for i in t["interfaces"] if i != "Node"]
            t["ext_interfaces"] = []
        if t["name"] == "Pet" and not v["petCat"]:
            t["members"] = [m for m in t["members"] if m != "Cat"]
        if t["name"] == "Color":
            # enum values can be deprecated too (with and without a reason); both front-ends must keep them
            t["deprecated_values"] = {"GREEN": {"reason": "use RED"}, "blue": {"reason": None}}
            if v["extraEnum"]:
                t["values"] = t["values"] + ["extra_VALUE"]
                t["deprecated_values"]["extra_VALUE"] = {"reason": None}
    s["types"] += [
        {"kind": "INPUT_OBJECT", "name": "Filter", "oneOf": False, "inputFields": [
            {"name": "color", "type": tr("Color")}, {"name": "minAge", "type": tr("Int"), "default": "3"},
            {"name": "limit", "type": tr("Int", ["R"]), "default": "25"},       # non-null with a default
            {"name": "tags", "type": tr("String", ["L", "R"])}, {"name": "and", "type": tr("Filter", ["L", "R"])},
            {"name": "not", "type": tr("Filter")}, {"name": "by", "type": tr("By")},
            {"name": "grid", "type": tr("Int", ["R", "L", "L", "R"])}]},
        {"kind": "INPUT_OBJECT", "name": "By", "oneOf": bool(v["oneOf"]), "inputFields": [
            {"name": "id", "type": tr("ID")}, {"name": "name", "type": tr("String")},
            {"name": "filter", "type": tr("Filter")}, {"name": "when", "type": tr("Date")}]},
    ]
    return s


def order_of(r, n):
    if r["order"] == "decl":
        return list(range(n))
    if r["order"] == "reversed":
        return list(reversed(range(n)))
    return [(i + 3) % n for i in range(n)]


def write_rendering(workdir, schema, v, r):
    sch = schema
    explicit = True
    if r["roots"] in ("default", "defaultExplicit"):
        sch = prog.rename_types(schema, prog.DEFAULT_ROOT_NAMES)
        explicit = r["roots"] == "defaultExplicit"
    sch = dict(sch, explicit_roots=explicit)
    key = vlib.stable_hash([v, r])
    order = order_of(r, len(sch["types"]))
    if r["fmt"] == "sdl":
        p = os.path.join(workdir, "s_%s.graphql" % key)
        text = render.sdl(sch, order=order, fold_extensions=r["fold"], declare_builtins=r["builtins"], docs=r.get("docs", False))
    else:
        p = os.path.join(workdir, "s_%s.json" % key)
        # a server that predates @oneOf does not report `isOneOf` at all: the same schema when no input is @oneOf
        text = render.introspection_json(sch, order=order, wrapped=(r["fmt"] == "wrapped"),
                                         is_one_of=not (r["sparse"] and not v["oneOf"]),
                                         include_builtins=r["builtins"],
                                         include_introspection_types=r["introTypes"], sparse=r["sparse"], docs=r.get("docs", False))
    vlib.write_if_changed(p, text)
    return p


def canon_modulo_order(inv):
    """Order-insensitive fingerprint of an inventory: items as a set, enum variants as a set."""
    def mod(m):
        items = m["items"]
        out = []
        for k in ("consts", "types"):
            for n, x in items[k].items():
                out.append(json.dumps([k, n, x], sort_keys=True))
        for n, s in items["structs"].items():
            out.append(json.dumps(["struct", n, s], sort_keys=True))
        for n, e in items["enums"].items():
            e2 = dict(e)
            e2["variants"] = sorted(json.dumps(v, sort_keys=True) for v in e["variants"])
            out.append(json.dumps(["enum", n, e2], sort_keys=True))
        for i in items["impls"]:
            i2 = dict(i)
            # match arms of hand-written enum impls follow variant order: compare as a bag of tokens
            i2["fns"] = {k: sorted(v["body"].split()) for k, v in i["fns"].items()}
            out.append(json.dumps(["impl", i2], sort_keys=True))
        return sorted(out)
    return json.dumps({n: mod(m) for n, m in inv["mods"].items()}, sort_keys=True)


def main(tier, replay=None, selftest=False):
    ck = Check(PROP, tier)
    vlib.build_harness()
    rng = random.Random(vlib.seed())
    workdir = os.path.join(vlib.WORK, "c07")
    os.makedirs(workdir, exist_ok=True)
    res = vlib.run_tlc("MC_C07", "MC_C07_%s.cfg" % tier, workers=4, heap="6g", timeout=1800)
    ck.add_tlc(res)
    if res["violated"]:
        raise ToolError("MC_C07: %s violated" % res["violated"])
    vlib.tlc_must_pass(res)
    cases = res["cases"]["CASE"]
    resp = vlib.run_tlc("MC_Progs", "MC_Progs_sim.cfg", simulate=(1200 if tier == "quick" else 6000), depth=80, timeout=1800)
    ck.add_tlc(resp)
    vlib.tlc_must_pass(resp)
    sj = resp["cases"]["SCHEMA"][0]
    docs = list({vlib.stable_hash(d): d for d in resp["cases"]["DOC"]}.values())
    bases = {rv: prog.schema_from_tla(sj, rv) for rv in ("full", "noMutation", "noSubscription")}
    # group the TLC cases by variant; per variant a seeded subset of renderings that keeps every
    # rendering option value covered
    byv = {}
    for c in cases:
        byv.setdefault(json.dumps(c["variant"], sort_keys=True), []).append(c)
    per_variant = 8 if tier == "quick" else 40
    ndocs = 5 if tier == "quick" else 12
    sel = []
    for vk, cs in byv.items():
        sel += rng.sample(cs, min(per_variant, len(cs)))
    seen = set()
    for c in sel:
        seen |= {(k, json.dumps(v)) for k, v in c["b"].items()}
    for c in cases:
        ks = {(k, json.dumps(v)) for k, v in c["b"].items()}
        if not ks <= seen:
            seen |= ks
            sel.append(c)
    if selftest:
        sel[0]["b"] = dict(sel[0]["b"], fmt="json")
        sel[0]["variant"] = dict(sel[0]["variant"])
        sel[0]["selftest"] = True
    jobs, meta = [], {}
    optsets = [{"mode": "cli"}, {"mode": "cli", "deprecation": "deny", "normalization": "rust"},
               {"mode": "cli", "deprecation": "allow", "fragments_other_variant": True}]
    for n, c in enumerate(sel):
        v = c["variant"]
        sch = apply_variant(bases[v["rootsV"]], v)
        if c.get("selftest"):
            sch_b = apply_variant(bases[v["rootsV"]], dict(v, depObj="bare"))
        else:
            sch_b = sch
        pa = write_rendering(workdir, sch, v, c["a"])
        pb = write_rendering(workdir, sch_b, dict(v, _b=1) if c.get("selftest") else v, c["b"])
        sub = ""
        if v["pxBase"] in ("Person",):
            sub = " { id }"
        elif v["pxBase"] == "Node":
            sub = " { __typename id }"
        elif v["pxBase"] == "Pet":
            sub = " { __typename }"
        texts = [KITCHEN % sub] + [prog.doc_text(d, {i + 1: VARS for i in range(len(d["defs"]))})
                                   for d in rng.sample(docs, min(ndocs, len(docs)))]
        for di, text in enumerate(texts):
            o = optsets[(n + di) % len(optsets)]
            for side, path in (("a", pa), ("b", pb)):
                jid = "%d|%d|%s" % (n, di, side)
                jobs.append({"id": jid, "schema_path": path, "query": text, "options": o, "want_tokens": True,
                             "want_inventory": c["a"]["order"] != "decl" and side == "a" and di == 0})
                meta[jid] = (n, di, side, text, path, o)
    # cross-order comparison: the reference rendering in declaration order vs the other orders
    xjobs = {}
    for vk, cs in byv.items():
        v = cs[0]["variant"]
        sch = apply_variant(bases[v["rootsV"]], v)
        sub = {"Person": " { id }", "Node": " { __typename id }", "Pet": " { __typename }"}.get(v["pxBase"], "")
        for order in ("decl", "reversed", "rotated"):
            r = {"fmt": "sdl", "order": order, "builtins": False, "introTypes": False, "roots": "explicit",
                 "fold": True, "sparse": False, "docs": False}
            jid = "x|%s|%s" % (vlib.stable_hash(v), order)
            jobs.append({"id": jid, "schema_path": write_rendering(workdir, sch, v, r), "query": KITCHEN % sub,
                         "options": {"mode": "cli"}, "want_tokens": False, "want_inventory": True})
            xjobs[jid] = (v, order)
    results, proc = vlib.gqlv("gen", jobs, timeout=3000)
    if len(results) != len(jobs):
        raise ToolError("gqlv gen %d/%d: %s" % (len(results), len(jobs), proc.stderr[-1500:]))
    byid = {r["id"]: r for r in results}
    agree_ok = agree_err = 0
    for jid, (n, di, side, text, path, o) in meta.items():
        if side != "a":
            continue
        ra, rb = byid[jid], byid["%d|%d|b" % (n, di)]
        c = sel[n]
        ck.count()
        oa = (ra["status"], ra.get("tokens") or ra.get("msg"))
        ob = (rb["status"], rb.get("tokens") or rb.get("msg"))
        if di == 0 and n % 200 == 0:
            ck.sample({"variant": c["variant"], "a": c["a"], "b": c["b"], "status": [ra["status"], rb["status"]]})
        if oa == ob:
            if ra["status"] == "ok":
                agree_ok += 1
            else:
                agree_err += 1
            continue
        pb = meta["%d|%d|b" % (n, di)][4]
        what = "status %s vs %s" % (ra["status"], rb["status"])
        if ra["status"] == rb["status"] == "ok":
            ta, tb = ra["tokens"], rb["tokens"]
            i = next((k for k in range(min(len(ta), len(tb))) if ta[k] != tb[k]), min(len(ta), len(tb)))
            what = "token streams differ at %d: ...%s... vs ...%s..." % (i, ta[max(0, i - 60):i + 60], tb[max(0, i - 60):i + 60])
        elif ra["status"] == rb["status"]:
            what = "messages differ: %s vs %s" % (ra.get("msg", "")[:150], rb.get("msg", "")[:150])
        else:
            what += ": %s | %s" % ((ra.get("msg") or "")[:150], (rb.get("msg") or "")[:150])
        feature = "+".join("%s=%s" % (k, c["b"][k]) for k in ("fmt", "builtins", "introTypes", "roots", "fold", "sparse", "docs")
                           if c["b"][k] != c["a"][k])
        ck.violation("pair-%s" % vlib.stable_hash([c, text]),
                     {"variant": c["variant"], "a": c["a"], "b": c["b"], "schema_a": path, "schema_b": pb,
                      "query": text, "options": o, "difference": what},
                     "C07: renderings of the same schema disagree (%s; variant %s): %s\nschema files: %s | %s" % (
                         feature, json.dumps(c["variant"]), what, path, pb),
                     case_key="pair|%s" % feature, signature=what)
    # cross-order
    groups = {}
    for jid, (v, order) in xjobs.items():
        groups.setdefault(json.dumps(v, sort_keys=True), {})[order] = byid[jid]
    for vk, g in groups.items():
        ck.count()
        ref = g["decl"]
        for order in ("reversed", "rotated"):
            r = g[order]
            same = (ref["status"] == r["status"]) and (
                ref["status"] != "ok" or canon_modulo_order(ref["inventory"]) == canon_modulo_order(r["inventory"]))
            if not same:
                ck.violation("order-%s-%s" % (order, vlib.stable_hash(vk)), {"variant": json.loads(vk), "order": order},
                             "C07: type order `%s` changes the generated code beyond item order (variant %s)" % (order, vk),
                             case_key="order")
    ck.notes["pairs_agreeing_ok"] = agree_ok
    ck.notes["pairs_agreeing_on_error"] = agree_err
    if agree_ok < 100:
        raise ToolError("vacuous: only %d pairs generated code" % agree_ok)
    ck.assumptions += ["the relation compared is between two outputs of the real generator; the specification supplies the schema space and which renderings are the same schema",
                       "renderings are compared with the SDL rendering of the same type order and root naming (literal identity); other orders modulo item order"]
    return ck.finish(exhaustive=False,
                     rule="variants of the universe schema (probe field type x base kind, deprecations, @oneOf, implementors, union members, enum values) "
                          "x rendering option sets chosen per variant (all option values covered) x kitchen-sink + %d ProgGen operations" % ndocs)


if __name__ == "__main__":
    sys.exit(main("quick"))
