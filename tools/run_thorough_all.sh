#!/bin/sh
# run every check's thorough tier in sequence (used for validation runs in the background)
cd "$(dirname "$0")/.." || exit 2
sh ./setup.sh || exit 2
for c in ${THOROUGH_LIST:-C13 C15 C16 C10 C11 C14 C17 C05 C06 C18 C07 C12 C04 C01 C03 C09 C02 C19 C20 C08}; do
  start=$(date +%s)
  timeout 5400 ./check $c --tier thorough > thorough_$c.out 2> thorough_$c.err
  rc=$?
  echo "$c rc=$rc secs=$(( $(date +%s) - start )) violations=$(grep -c '^VIOLATION' thorough_$c.out) known=$(grep -c '^KNOWN' thorough_$c.out)"
  tail -2 thorough_$c.err | cut -c1-300
done
