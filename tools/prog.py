"""Projection of the TLA+ program model (Gql.tla / ProgGen.tla) to the input
format of tools/render.py, and application of compact edit descriptions
(Edits.tla Apply)."""
import copy, json
import render


DEFAULT_ROOT_NAMES = {"RootQ": "Query", "RootM": "Mutation", "RootS": "Subscription"}


def rename_types(schema, mapping):
    """Consistently rename types of an abstract schema (pure renaming: same schema up to names)."""
    s = json.loads(json.dumps(schema))
    mp = lambda n: mapping.get(n, n)
    for t in s["types"]:
        t["name"] = mp(t["name"])
        for f in t.get("fields", []) + t.get("inputFields", []):
            f["type"]["base"] = mp(f["type"]["base"])
            for a in f.get("args", []) or []:
                a["type"]["base"] = mp(a["type"]["base"])
        if "interfaces" in t:
            t["interfaces"] = [mp(x) for x in t["interfaces"]]
        if "members" in t:
            t["members"] = [mp(x) for x in t["members"]]
    s["roots"] = {k: (mp(v) if v else v) for k, v in s["roots"].items()}
    return s


TYPE_RENAMES = {"Robot": "HTTPRobot", "Cat": "tabby_cat"}
# fragment names whose snake_case form (the name of the flattened member that holds them) is a Rust keyword (defect D32)
FRAG_RENAMES = {"FragA": "Type", "FragB": "Match", "FragC": "Async"}


def rename_program(p, mapping=TYPE_RENAMES, op_name=None, frag_mapping=FRAG_RENAMES):
    """pure renaming of a program and its vectors: non-UpperCamelCase type (and operation) names, fragment
    names that snake_case to keywords"""
    def ren(x):
        return mapping.get(x, x)

    def walk(v):
        if v["t"] == "obj":
            for kv in v["o"]:
                if kv["k"] == "__typename" and kv["v"]["t"] in ("str", "opt"):
                    kv["v"]["s"] = ren(kv["v"]["s"])
                else:
                    walk(kv["v"])
        elif v["t"] == "list":
            for x in v["l"]:
                walk(x)
    for d in p["doc"]["defs"]:
        d["on"] = ren(d["on"])
        if d["k"] == "op" and op_name:
            d["name"] = op_name
        if d["k"] == "frag":
            d["name"] = frag_mapping.get(d["name"], d["name"])
    for n in p["doc"]["nodes"]:
        n["on"] = ren(n["on"])
        if n["k"] == "spread":
            n["name"] = frag_mapping.get(n["name"], n["name"])
    for v in p["vectors"]:
        walk(v["payload"])
        walk(v["expect"])
        if v["alt"]["a"] in ("type", "c_tn_swap"):
            v["alt"]["x"] = ren(v["alt"]["x"])
    return p


# Which members the SDL rendering with unfolded extensions moves into `extend type` blocks.
EXT_PLAN = {"Robot": {"fields": ["owner", "serial"], "ifaces": ["Node"]},                     # extension after the type
            "Person": {"fields": ["lonely", "older", "colors"], "ifaces": ["Named"], "first": True},  # ... before it
            "Cat": {"fields": [], "ifaces": ["Named"]},                                       # `implements` only
            "RootQ": {"fields": ["named", "version"], "ifaces": []}}


def schema_from_tla(sj, variant="full", explicit_roots=True):
    """sj = SchemaJson emitted by the MC modules -> abstract schema of render.py"""
    types = []
    for name in sj["order"]:
        t = sj["types"][name]
        k = t["kind"]
        o = {"kind": k, "name": name}
        if k in ("OBJECT", "INTERFACE"):
            fs = []
            for f in t["fields"]:
                dep = None
                if f["dep"] == "bare":
                    dep = {"reason": None}
                elif f["dep"] != "none":
                    dep = {"reason": f["dep"]}
                fs.append({"name": f["name"], "type": {"q": list(f["q"]), "base": f["base"]}, "dep": dep,
                           "args": [], "ext": f["name"] in EXT_PLAN.get(name, {}).get("fields", [])})
            o["fields"] = fs
            if k == "OBJECT":
                o["interfaces"] = [i for i in sj["order"] if i in t["ifaces"]]
                o["ext_interfaces"] = EXT_PLAN.get(name, {}).get("ifaces", [])
                o["ext_first"] = bool(EXT_PLAN.get(name, {}).get("first"))
        elif k == "UNION":
            o["members"] = list(t["members"])
        elif k == "ENUM":
            o["values"] = list(t["values"])
        elif k == "INPUT_OBJECT":
            o["inputFields"] = [{"name": f["name"], "type": {"q": list(f["q"]), "base": f["base"]}}
                                for f in t["fields"]]
            o["oneOf"] = bool(t.get("oneOf"))
        types.append(o)
    r = sj["roots"][variant]
    roots = {k: (v or None) for k, v in r.items()}
    return {"types": types, "roots": roots, "explicit_roots": explicit_roots}


def apply_edit(doc, e):
    """Same as Edits!Apply."""
    d = copy.deepcopy(doc)
    if not e["keepAll"]:
        keep = list(e["keep"])           # 1-based sorted
        new_index = {old: i + 1 for i, old in enumerate(keep)}
        nodes = []
        for old in keep:
            n = dict(d["nodes"][old - 1])
            n["p"] = 0 if n["p"] == 0 else new_index[n["p"]]
            nodes.append(n)
        d["nodes"] = nodes
    ns = e["nset"]
    if ns["i"] != 0:
        d["nodes"][ns["i"] - 1][ns["f"]] = ns["v"]
    ds = e["dset"]
    if ds["d"] != 0:
        df = d["defs"][ds["d"] - 1]
        df["name"], df["kind"], df["on"] = ds["name"], ds["kind"], ds["on"]
    d["nodes"] = d["nodes"] + [dict(n) for n in e["app"]]
    d["defs"] = d["defs"] + [dict(x) for x in e.get("dapp", [])]
    return d


def _sel(doc, d, p):
    out = []
    for i, n in enumerate(doc["nodes"], start=1):
        if n["d"] != d or n["p"] != p:
            continue
        k = n["k"]
        if k == "typename":
            out.append({"k": "typename", "alias": n.get("alias") or None, "sel": _sel(doc, d, i)})
        elif k == "spread":
            out.append({"k": "spread", "name": n["name"]})
        elif k == "inline":
            out.append({"k": "inline", "on": n["on"], "sel": _sel(doc, d, i)})
        else:
            node = {"k": "field", "name": n["name"], "sel": _sel(doc, d, i)}
            if n.get("alias"):
                node["alias"] = n["alias"]
            if n.get("args"):
                node["args"] = n["args"]
            out.append(node)
    return out


def doc_to_render(doc, vars_by_def=None):
    defs = []
    for di, df in enumerate(doc["defs"], start=1):
        if df["k"] == "frag":
            defs.append({"k": "frag", "name": df["name"], "on": df["on"], "sel": _sel(doc, di, 0)})
        else:
            o = {"k": "op", "kind": df["kind"], "name": df["name"] or None, "sel": _sel(doc, di, 0),
                 "bare": df["kind"] == "bare", "vars": (vars_by_def or {}).get(di, [])}
            defs.append(o)
    return {"defs": defs}


def doc_text(doc, vars_by_def=None):
    return render.document_text(doc_to_render(doc, vars_by_def))


def op_names(doc):
    return [d["name"] for d in doc["defs"] if d["k"] == "op"]
