"""C19 - `graphql-client generate` writes exactly the library's output to the right file.

CliGenerate.tla / MC_C19: TLC explores the protocol (flags -> generate -> format
-> write -> exit) for every request and checks its invariants; the driver runs
the REAL binary built from /repo's working tree in scratch directories for a
pairwise-covering sample of requests, snapshots the directory tree before and
after, compares the written file with the library called with
LibraryOptions(flags) (+ the same rustfmt), and validates the recorded runs
against the specification with TLC (Trace_C19).
"""
import hashlib, json, os, random, shutil, subprocess, sys
import vlib
from vlib import Check, ToolError

PROP = "C19"
HEADER = "#![allow(clippy::all, warnings)]"

SCHEMA = '''schema { query: Query mutation: Mut }
scalar Date
enum Color { RED GREEN }
enum Mood { HAPPY SAD }
interface Node { id: ID! }
type A implements Node { id: ID! name: String old: Int @deprecated(reason: "gone") born: Date color: Color mood: Mood }
type B implements Node { id: ID! b: String }
type Query { a(c: Color, m: Mood, d: Date): A node: Node }
type Mut { touch(id: ID!): A }
'''
QUERY_VALID = '''query OpA($c: Color, $m: Mood, $d: Date) {
  a(c: $c, m: $m, d: $d) { id name old born color mood }
  node { __typename id ... on B { b } }
}

mutation OpB($id: ID!) {
  touch(id: $id) { id color }
}
'''
QUERY_INVALID = QUERY_VALID.replace("id name old", "id nope old")
QUERY_WIDE = QUERY_VALID.replace("  node {", "".join(
    "  w%d: a(c: $c) { id name born color mood }\n" % k for k in range(260)) + "  node {", 1)
CLI = os.path.join(vlib.WORK, "target-cli", "debug", "graphql-client")


def build_cli():
    p = vlib.sh(["cargo", "build", "--offline", "-q", "-p", "graphql_client_cli"], cwd=vlib.REPO, timeout=3000,
                env={"CARGO_TARGET_DIR": os.path.join(vlib.WORK, "target-cli"), "CARGO_NET_OFFLINE": "true"})
    if p.returncode != 0 or not os.path.exists(CLI):
        raise ToolError("building graphql_client_cli failed:\n" + p.stderr[-3000:])


def snapshot(root):
    out = {}
    for d, _, fs in os.walk(root):
        for f in fs:
            p = os.path.join(d, f)
            out[os.path.relpath(p, root)] = hashlib.sha1(open(p, "rb").read()).hexdigest()
    return out


# every extension the library reads as SDL is used for the schema file (CliGenerate!SchemaNameFor)
SCHEMA_NAME = {"ops.graphql": "schema.graphql", "user.query.graphql": "schema.graphqls", "nested/dir/ops.gql": "schema.gql",
               "link.graphql": "schema.graphql"}


def argv(case, root):
    f = case["flags"]
    q = os.path.join(root, "q", case["qname"])
    s = os.path.join(root, SCHEMA_NAME[case["qname"]])
    a = ["generate", q, "--schema-path", s]
    if f["variables_derives"]:
        a += ["--variables-derives", f["variables_derives"]]
    if f["response_derives"]:
        a += ["-O", f["response_derives"]]
    if f["deprecation"]:
        a += ["--deprecation-strategy", f["deprecation"]]
    if f["module_visibility"]:
        a += ["-m", f["module_visibility"]]
    if f["custom_scalars_module"]:
        a += ["--custom-scalars-module", f["custom_scalars_module"]]
    if f["fragments_other_variant"]:
        a += ["--fragments-other-variant"]
    if f["selected_operation"]:
        a += ["--selected-operation", f["selected_operation"]]
    if not case["formatting"]:
        a += ["--no-formatting"]
    if case["placement"] != "beside":
        a += ["-o", os.path.join(root, "out")]
    if f["external_enums"]:
        a += ["--external-enums"] + f["external_enums"].split()
    return a


def lib_options(case):
    o = case["options"]
    d = {"mode": "cli", "fragments_other_variant": o["fragments_other_variant"]}
    for k in ("variables_derives", "response_derives", "deprecation", "custom_scalars_module", "operation_name"):
        if o[k]:
            d[k] = o[k]
    d["module_visibility"] = {"pub": "pub", "inherited": "inherited", "crate": "pub(crate)"}[o["module_visibility"]]
    if o["extern_enums"]:
        d["extern_enums"] = o["extern_enums"].split()
    return d


def rustfmt(code):
    p = subprocess.run(["rustfmt"], input=code, stdout=subprocess.PIPE, stderr=subprocess.PIPE, text=True, timeout=120)
    return p.stdout if p.returncode == 0 else None


def setup(root, case):
    shutil.rmtree(root, ignore_errors=True)
    os.makedirs(os.path.join(root, "q", os.path.dirname(case["qname"])), exist_ok=True)
    if case["placement"] == "outdir":
        os.makedirs(os.path.join(root, "out"))
    stext = "type Query { " if case["program"] == "badSchema" else SCHEMA
    qtext = QUERY_INVALID if case["program"] == "invalidQuery" else QUERY_WIDE if case["program"] == "validWide" else QUERY_VALID
    if case["qname"] == "link.graphql":
        # both inputs are symbolic links into a content-addressed store (other names, no extension)
        os.makedirs(os.path.join(root, "store"))
        open(os.path.join(root, "store", "5c3a9f"), "w").write(stext)
        os.symlink(os.path.join("store", "5c3a9f"), os.path.join(root, "schema.graphql"))
        if case["program"] != "missingQuery":
            open(os.path.join(root, "store", "3f9a1c07"), "w").write(qtext)
            os.symlink(os.path.join("..", "store", "3f9a1c07"), os.path.join(root, "q", case["qname"]))
    else:
        open(os.path.join(root, SCHEMA_NAME[case["qname"]]), "w").write(stext)
        if case["program"] != "missingQuery":
            open(os.path.join(root, "q", case["qname"]), "w").write(qtext)
    # neighbours that must not be touched
    open(os.path.join(root, "q", "keep.rs"), "w").write("// keep\n")
    open(os.path.join(root, "q", "ops.txt"), "w").write("keep\n")


def pick(cases, rng, n):
    """pairwise-covering sample over the request parameters"""
    def feats(c):
        items = [("flag:" + k, json.dumps(v)) for k, v in c["flags"].items()]
        items += [("qname", c["qname"]), ("placement", c["placement"]), ("formatting", c["formatting"]), ("program", c["program"])]
        return {(a, b) for i, a in enumerate(items) for b in items[i + 1:]}
    pool = rng.sample(cases, min(len(cases), 6000))
    fs = [feats(c) for c in pool]
    uncovered = set().union(*fs)
    chosen = []
    idx = set(range(len(pool)))
    while uncovered and len(chosen) < n:
        best = max(idx, key=lambda i: len(fs[i] & uncovered))
        if not fs[best] & uncovered:
            break
        chosen.append(pool[best])
        uncovered -= fs[best]
        idx.discard(best)
    fill = n - len(chosen)
    if fill > 0:
        chosen += [pool[i] for i in rng.sample(sorted(idx), min(fill, len(idx)))]
    return chosen, len(uncovered)


def main(tier, replay=None, selftest=False):
    ck = Check(PROP, tier)
    vlib.build_harness()
    build_cli()
    rng = random.Random(vlib.seed())
    res = vlib.run_tlc("MC_C19", "MC_C19.cfg", workers=8, heap="10g", timeout=1800)
    ck.add_tlc(res)
    if res["violated"]:
        raise ToolError("MC_C19: %s violated" % res["violated"])
    vlib.tlc_must_pass(res)
    cases = res["cases"]["CASE"]
    if replay:
        sel = [json.load(open(replay))["case"]]
        left = 0
    else:
        # the pairwise cover is taken over the requests that SUCCEED (a pair "covered" only by a run that fails
        # early for another reason shows nothing about that pair); failing programs are added on top
        good = [c for c in cases if c["program"] in ("valid", "validWide")]
        sel, left = pick(good, rng, 62 if tier == "quick" else 1400)
        for prog in ("invalidQuery", "missingQuery", "badSchema"):
            for placement in ("beside", "outdir"):
                cand = [c for c in cases if c["program"] == prog and c["placement"] == placement]
                sel += rng.sample(cand, min(len(cand), 1 if tier == "quick" else 15))
    ck.notes["pairs_left_uncovered"] = left
    base = os.path.join(vlib.WORK, "c19")
    trace = []
    genjobs = []
    runs = []
    hangs = 0
    for n, case in enumerate(sel):
        if hangs >= 3:
            break           # three runs already hung: the verdict is in
        root = os.path.join(base, "run%d" % n)
        setup(root, case)
        # a previous, longer output at the same destination must be replaced entirely
        prerun = case["program"] in ("valid", "validWide") and case["flags"]["selected_operation"] and case["placement"] != "outdirMissing" and n % 2 == 0
        if prerun:
            pre = dict(case, flags=dict(case["flags"], selected_operation=""))
            try:
                subprocess.run([CLI] + argv(pre, root), stdout=subprocess.PIPE, stderr=subprocess.PIPE, timeout=40)
            except subprocess.TimeoutExpired:
                pass        # (the run under test below reports the hang)
        before = snapshot(root)
        try:
            p = subprocess.run([CLI] + argv(case, root), stdout=subprocess.PIPE, stderr=subprocess.PIPE, text=True, timeout=40,
                               env=dict(os.environ, RUST_LOG="off"))
        except subprocess.TimeoutExpired:
            # (a process that hangs is data, not a tool error)
            p = subprocess.CompletedProcess([CLI], returncode=-999, stdout="", stderr="the command did not terminate within 40 s")
            hangs += 1
        after = snapshot(root)
        created = sorted(k for k in after if k not in before)
        modified = sorted(k for k in after if k in before and after[k] != before[k])
        deleted = sorted(k for k in before if k not in after)
        runs.append((case, root, p, created, modified, deleted, prerun))
        genjobs.append({"id": n, "schema_path": os.path.join(root, SCHEMA_NAME[case["qname"]]),
                        "query_path": os.path.join(root, "q", case["qname"]), "options": lib_options(case), "want_tokens": True})
    libres, _ = vlib.gqlv("gen", genjobs)
    for (case, root, p, created, modified, deleted, prerun), lr in zip(runs, libres):
        ck.count()
        expect_ok = case["exit"] == 0
        dest = next(iter(case["written"]))["path"] if case["written"] else None
        problems = []
        content_ok = False
        touched = created + modified
        if prerun and dest in modified:
            # the destination existed from the previous run: it counts as the one written file
            created, modified = [dest], [m for m in modified if m != dest]
        if expect_ok:
            if lr["status"] != "ok":
                raise ToolError("library did not generate for a request the model calls valid: %s" % lr)
            if p.returncode != 0:
                problems.append("exit status %s, expected 0: %s" % (p.returncode, p.stderr[-300:]))
            if created != [dest] or modified or deleted:
                problems.append("files created %s / modified %s / deleted %s, expected exactly %s created" % (created, modified, deleted, [dest]))
            if dest and os.path.exists(os.path.join(root, dest)):
                want = HEADER + "\n" + lr["tokens"]
                if case["formatting"]:
                    want = rustfmt(want)
                got = open(os.path.join(root, dest)).read()
                content_ok = want is not None and got == want
                if not content_ok:
                    i = next((k for k in range(min(len(got), len(want or ""))) if got[k] != want[k]), min(len(got), len(want or "")))
                    problems.append("content of %s differs from header + library output%s at byte %d (%d vs %d bytes): ...%r... vs ...%r..." % (
                        dest, " through rustfmt" if case["formatting"] else "", i, len(got), len(want or ""), got[max(0, i - 40):i + 40], (want or "")[max(0, i - 40):i + 40]))
        else:
            if p.returncode == 0:
                problems.append("exit status 0 although generation must fail (%s, %s)" % (case["program"], case["placement"]))
            if created or modified or deleted:
                problems.append("a failing run touched files: created %s modified %s deleted %s" % (created, modified, deleted))
        if selftest and ck.cov["evaluations"] == 3:
            created = created + ["selftest.rs"]
        trace.append({"flags": case["flags"], "qname": case["qname"], "placement": case["placement"], "formatting": case["formatting"],
                      "program": case["program"], "exit": 0 if p.returncode == 0 else 1, "created": created, "modified": modified + deleted,
                      "contentIsLibraryOutput": content_ok})
        if len(ck.cov["samples"]) < 3:
            ck.sample({"argv": argv(case, "<root>"), "program": case["program"], "exit": p.returncode, "created": created})
        if problems:
            ck.violation("cli-%s" % vlib.stable_hash(case), {"case": case, "argv": argv(case, root), "stderr": p.stderr[-600:], "problems": problems},
                         "C19 [%s %s %s fmt=%s flags=%s]: %s" % (case["program"], case["placement"], case["qname"], case["formatting"],
                                                                 {k: v for k, v in case["flags"].items() if v}, "; ".join(problems)),
                         case_key="%s|%s" % (case["program"], case["placement"]))
    tpath = os.path.join(base, "trace.ndjson")
    with open(tpath, "w") as f:
        for e in trace:
            f.write(json.dumps(e) + "\n")
    rt = vlib.run_tlc("Trace_C19", "Trace_C19.cfg", env={"TRACE": tpath}, dfs=True, timeout=900)
    ck.add_tlc(rt)
    if not rt["ok"]:
        import re
        m = re.search(r'"UNMATCHED", (\d+)', rt["out"])
        k = int(m.group(1)) if m else 0
        bad = trace[k - 1] if 0 < k <= len(trace) else None
        ck.violation("trace-%s" % vlib.stable_hash(bad), {"event": bad, "tlc": rt["out"][-1000:]},
                     "C19: recorded run is not an outcome of CliGenerate.tla: %s" % json.dumps(bad)[:500], case_key="trace")
    for n in range(len(sel)):
        shutil.rmtree(os.path.join(base, "run%d" % n), ignore_errors=True)
    ck.assumptions += ["the harness applies the same rustfmt binary to header + library tokens when formatting is on",
                       "requests are a pairwise-covering sample of the 165 888 requests TLC explores"]
    return ck.finish(exhaustive=False, rule="TLC: every request (8 flags x query name x placement x formatting x program kind); replayed: pairwise-covering sample of real runs, "
                                            "half of the selected-operation runs after a longer previous output at the same destination")


if __name__ == "__main__":
    sys.exit(main("quick"))
