"""C13 - one exact rule maps GraphQL type modifiers to Option / Vec nesting.

TLC (MC_C13) checks the loop model of the implementation (extraction loops +
decorate_type) against the reference rule on every well-formed expression and
emits every (expression, base, position, format) with the expected Rust type.
This driver builds one schema whose fields/variables/input fields are those
expressions, runs the real generator, reads the emitted field types with syn
(module aliases resolved) and compares them structurally.
"""
import json, os, re, sys
import vlib, render
from vlib import Check, ToolError

PROP = "C13"


def base_schema_types():
    tr = lambda b, q=(): {"q": list(q), "base": b}
    return [
        {"kind": "SCALAR", "name": "Date"},
        {"kind": "ENUM", "name": "Color", "values": ["RED", "GREEN"]},
        {"kind": "INTERFACE", "name": "Iface", "fields": [{"name": "x", "type": tr("Int")}]},
        {"kind": "OBJECT", "name": "Obj", "interfaces": ["Iface"], "fields": [{"name": "x", "type": tr("Int")}]},
        {"kind": "OBJECT", "name": "Obj2", "interfaces": ["Iface"], "fields": [{"name": "x", "type": tr("Int")}]},
        {"kind": "UNION", "name": "Uni", "members": ["Obj", "Obj2"]},
        {"kind": "INPUT_OBJECT", "name": "Leaf", "inputFields": [{"name": "x", "type": tr("Int")}]},
    ]


SUBSEL = {
    "Obj": [{"k": "field", "name": "x"}],
    "Iface": [{"k": "typename"}, {"k": "field", "name": "x"}],
    "Uni": [{"k": "typename"}],
}


def build_job(group, cases, workdir):
    """One (pos, fmt) group -> schema file + query text + field index."""
    pos, fmt = group
    types = base_schema_types()
    tr = lambda b, q=(): {"q": list(q), "base": b}
    names = {}
    sel = [{"k": "field", "name": "x"}]
    vars_ = []
    tfields = [{"name": "x", "type": tr("Int")}]
    in_fields, one_fields = [], []
    for n, c in enumerate(cases):
        t = {"q": c["q"], "base": c["base"]}
        if pos == "field":
            nm = "f%d" % n
            tfields.append({"name": nm, "type": t})
            node = {"k": "field", "name": nm}
            if c["base"] in SUBSEL:
                node["sel"] = SUBSEL[c["base"]]
            sel.append(node)
        elif pos == "var":
            nm = "v%d" % n
            vars_.append({"name": nm, "type": t})
        elif pos == "inputfield":
            nm = "g%d" % n
            f = {"name": nm, "type": t}
            # a default value does not change the type of the member (schema SDL `= 7`, JSON defaultValue)
            if n % 2 == 0 and not c["q"][-1:] == ["L"] and "L" not in c["q"] and c["base"] in ("Int", "Float"):
                f["default"] = "7"
            in_fields.append(f)
        elif pos == "oneof":
            nm = "h%d" % n
            one_fields.append({"name": nm, "type": t})
        names[nm] = c
    # T restates the fields of an interface TI that declares them with every `!` removed (a legal covariant
    # narrowing): what counts is the modifier list T itself writes
    ti = [{"name": f["name"], "type": {"q": [x for x in f["type"]["q"] if x != "R"], "base": f["type"]["base"]}} for f in tfields]
    types.append({"kind": "INTERFACE", "name": "TI", "fields": ti})
    types.append({"kind": "OBJECT", "name": "T", "interfaces": ["TI"], "fields": tfields})
    if in_fields:
        types.append({"kind": "INPUT_OBJECT", "name": "In", "inputFields": in_fields})
        vars_.append({"name": "inp", "type": tr("In")})
    if one_fields:
        types.append({"kind": "INPUT_OBJECT", "name": "One", "oneOf": True, "inputFields": one_fields})
        vars_.append({"name": "one", "type": tr("One")})
    types.append({"kind": "OBJECT", "name": "Query", "fields": [{"name": "t", "type": tr("T")}]})
    schema = {"types": types, "roots": {"query": "Query"}, "explicit_roots": False}
    doc = {"defs": [{"k": "op", "kind": "query", "name": "Q", "vars": vars_,
                     "sel": [{"k": "field", "name": "t", "sel": sel}]}]}
    os.makedirs(workdir, exist_ok=True)
    if fmt == "sdl":
        path = os.path.join(workdir, "schema_%s.graphql" % pos)
        vlib.write_if_changed(path, render.sdl(schema, declare_builtins=True))
    else:
        path = os.path.join(workdir, "schema_%s.json" % pos)
        vlib.write_if_changed(path, render.introspection_json(schema))
    query = render.document_text(doc)
    return {"id": "%s/%s" % (pos, fmt), "schema_path": path, "query": query,
            "options": {"mode": "cli"}, "want_inventory": True, "want_tokens": False}, names


WRAP = re.compile(r"^(Option|Vec|Box)<(.*)>$")


def split_type(ty):
    """'Option<Vec<Int>>' -> (['Option','Vec'], 'Int')"""
    wr = []
    while True:
        m = WRAP.match(ty)
        if not m:
            return wr, ty
        wr.append(m.group(1))
        ty = m.group(2)


def resolve_alias(name, mod):
    seen = set()
    while name in mod["types"] and name not in seen:
        seen.add(name)
        name = mod["types"][name]["ty"]
    return name


def check_type(observed, case, mod):
    """Return None if ok else message."""
    wr_o, inner_o = split_type(observed)
    wr_e, _ = split_type(case["expect"].replace("_", "X"))
    if wr_o != wr_e:
        return "wrappers %s, expected %s" % ("<".join(wr_o) or "-", "<".join(wr_e) or "-")
    rb = case["rustbase"]
    if not rb.startswith("@"):
        res = resolve_alias(inner_o, mod)
        if res != rb:
            return "base type resolves to %s, expected %s" % (res, rb)
        return None
    base = rb[1:]
    if base == "Date":
        res = resolve_alias(inner_o, mod)
        if res not in ("super::Date",):
            return "custom scalar resolves to %s, expected super::Date" % res
    elif base == "Color":
        if inner_o not in mod["enums"]:
            return "enum base %s is not an enum of the module" % inner_o
    elif base == "Leaf":
        if inner_o not in mod["structs"]:
            return "input base %s is not a struct of the module" % inner_o
    else:
        if inner_o not in mod["structs"] and inner_o not in mod["enums"] and inner_o not in mod["types"]:
            return "composite base %s is not defined in the module" % inner_o
    return None


def find_container(mod, pos):
    """Locate the struct/enum whose members carry the case types, from API-stable names."""
    if pos == "var":
        return mod["structs"].get("Variables"), "struct"
    if pos == "field":
        rd = mod["structs"].get("ResponseData")
        if not rd:
            return None, None
        t = [f for f in rd["fields"] if f["wire"] == "t"]
        if not t:
            return None, None
        _, inner = split_type(t[0]["ty"])
        return mod["structs"].get(inner), "struct"
    v = mod["structs"].get("Variables")
    if not v:
        return None, None
    want = "inp" if pos == "inputfield" else "one"
    f = [f for f in v["fields"] if f["wire"] == want]
    if not f:
        return None, None
    _, inner = split_type(f[0]["ty"])
    if inner in mod["structs"]:
        return mod["structs"][inner], "struct"
    if inner in mod["enums"]:
        return mod["enums"][inner], "enum"
    return None, None


def run(ck, cases, workdir):
    groups = {}
    for c in cases:
        groups.setdefault((c["pos"], c["fmt"]), []).append(c)
    jobs, index = [], {}
    for g in sorted(groups):
        job, names = build_job(g, groups[g], workdir)
        jobs.append(job)
        index[job["id"]] = (g, names, job)
    results, proc = vlib.gqlv("gen", jobs)
    if len(results) != len(jobs):
        raise ToolError("gqlv gen returned %d results for %d jobs: %s" % (len(results), len(jobs), proc.stderr[-2000:]))
    for r in results:
        g, names, job = index[r["id"]]
        pos, fmt = g
        rep_base = {"group": list(g), "schema_path": job["schema_path"], "query": job["query"]}
        if r["status"] != "ok" or "inventory" not in r:
            # the whole group failed to generate: every case of the group is unobservable
            msg = "generation %s: %s" % (r["status"], r.get("msg") or r.get("parse_error"))
            first = next(iter(names.values()))
            ck.violation("%s-%s-generation" % g, dict(rep_base, cases=list(names.values())[:50], observed=r),
                         "C13 %s/%s: %s" % (pos, fmt, msg), case_key="gen:%s/%s" % g, signature=msg)
            continue
        mod = r["inventory"]["mods"].get("q", {}).get("items")
        if not mod:
            ck.violation("%s-%s-nomodule" % g, dict(rep_base, observed=r), "module `q` not found")
            continue
        cont, kind = find_container(mod, pos)
        if cont is None:
            ck.violation("%s-%s-nocontainer" % g, dict(rep_base, observed=r),
                         "could not locate the container type for position %s" % pos)
            continue
        members = cont["fields"] if kind == "struct" else cont["variants"]
        bywire = {m["wire"]: m for m in members}
        for nm, c in names.items():
            ck.count()
            ck.sample({"case": c, "member": nm})
            m = bywire.get(nm)
            key = "%s/%s/%s/%s" % (pos, fmt, c["text"], c["base"])
            if m is None:
                ck.violation(key, dict(rep_base, case=c, member=nm),
                             "%s: member %s missing from generated %s" % (key, nm, kind), case_key=key)
                continue
            if kind == "struct":
                if pos == "oneof":
                    # (JSON front-end did not produce an enum: the member is typed as a plain input field)
                    ty = m["ty"]
                else:
                    ty = m["ty"]
            else:
                fl = m["fields"]
                ty = fl[0]["ty"] if len(fl) == 1 else "<%d fields>" % len(fl)
            if pos == "oneof" and kind != "enum":
                err = "@oneOf input was not generated as an enum (got a struct; member type %s)" % ty
            else:
                err = check_type(ty, c, mod)
            if err:
                ck.violation(key, dict(rep_base, case=c, member=nm, observed_type=ty, expected=c["expect"]),
                             "%s: generated type `%s`, rule gives `%s` over %s: %s" % (
                                 key, ty, c["expect"], c["rustbase"], err),
                             case_key=key, signature=err)


def main(tier, replay=None, selftest=False):
    ck = Check(PROP, tier)
    workdir = os.path.join(vlib.WORK, "c13")
    if replay:
        rep = json.load(open(replay))
        cases = rep.get("cases") or [rep["case"]]
        run(ck, cases, workdir)
        return ck.finish(exhaustive=False, rule="replay of recorded case(s)")
    vlib.build_harness()
    cfg = "MC_C13_quick.cfg" if tier == "quick" else "MC_C13_thorough.cfg"
    res = vlib.run_tlc("MC_C13", cfg, workers=1)
    ck.add_tlc(res)
    if res["violated"]:
        # the model of the algorithm disagrees with the rule: the model is wrong (the code is what is
        # checked below) -> tool error, not a verdict on the code
        raise ToolError("MC_C13 violated %s:\n%s" % (res["violated"], res["out"][-2000:]))
    vlib.tlc_must_pass(res)
    cases = res["cases"].get("CASE", [])
    if len(cases) < 100:
        raise ToolError("vacuous: only %d cases emitted" % len(cases))
    if selftest:
        # corrupt one expectation: the check must report it
        cases[len(cases) // 2]["expect"] = "Vec<" + cases[len(cases) // 2]["expect"] + ">"
    run(ck, cases, workdir)
    ck.assumptions += [
        "TLC 1.8 and CommunityModules; syn's rendering of types; projection in tools/render.py",
        "composite/enum/input base types are checked by kind (defined in the module), built-ins and custom scalars by resolved alias",
    ]
    depth = 4 if tier == "quick" else 6
    return ck.finish(exhaustive=True,
                     rule="every well-formed type expression up to list depth %d x base kind x position "
                          "{field,var,inputfield,oneof} x format {sdl,json}; each is one distinct case" % depth,
                     extra={"max_list_depth": depth})


if __name__ == "__main__":
    sys.exit(main("quick"))
