"""C03 - generated response types reject what the schema forbids (see c01.py)."""
import c01


def main(tier, replay=None, selftest=False):
    return c01.main_prop("C03", tier, replay, selftest)
