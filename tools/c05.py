"""C05 - request body carries the verbatim document and the right operation name.

MC_C05 (OpSelect.tla): TLC enumerates documents (operation name sequences from a
pool with normalisation near-misses, fragment placement, text decorations),
requested names, normalization and mode, with the reference selection result.
The driver renders the text byte-exactly, calls the real generator through the
string route and the file route, reads QUERY / OPERATION_NAME / ResponseData /
Variables from the emitted module, and compiles a sample to observe
serde_json::to_value(build_query(..)).
"""
import json, os, random, sys
import vlib
from consumer import Consumers
from vlib import Check, ToolError

PROP = "C05"

SCHEMA = '''schema { query: Query mutation: Mut }
type Query { f1(s: String): Int f2(s: String): Int f3(s: String): Int f9: Int }
type Mut { f1(s: String): Int f2(s: String): Int f3(s: String): Int f9: Int }
'''

ASTRAL = "\U0001F600\U00010348"


def render(case):
    deco = set(case["deco"])
    nl = "\r\n" if "crlf" in deco else "\n"
    ind = "\t" if "tabs" in deco else "  "
    sep = ", " if "commas" in deco else " "
    defs = []
    for k, name in enumerate(case["ops"], start=1):
        arg = ""
        if "escapes" in deco:
            arg = '(s: "a \\" b \\\\ c \\n d \\u00e9 \\t/")'
        if "blockstring" in deco and k == 1:
            arg = '(s: """block "quoted" \\""" \\ end\n  second line""")'
        if "astral" in deco and k == 1:
            arg = '(s: "astral %s end")' % ASTRAL
        kind = "mutation" if k == 2 else "query"
        lines = []
        if "comments" in deco:
            lines.append("# operation %d: \"quoted\" héllo wörld ✓ %s" % (k, ASTRAL if "astral" in deco else ""))
        head = "%s %s($v%d: Int%s$w: String) {" % (kind, name, k, "," if "commas" in deco else " ")
        lines.append(head)
        body = "f%d%s" % (k, arg)
        if "commas" in deco:
            body += ","
        lines.append(ind + body + ("  # trailing comment \"x\"" if "comments" in deco else ""))
        if case["fragsAt"] != "none" and k == 1:
            lines.append(ind + "...Frag1")
        lines.append("}")
        defs.append(nl.join(lines))
    frag = nl.join(["fragment Frag1 on Query {", ind + "f9", "}"])
    if case["fragsAt"] == "first":
        defs = [frag] + defs
    elif case["fragsAt"] == "last":
        defs = defs + [frag]
    elif case["fragsAt"] == "between":
        defs = defs[:1] + [frag] + defs[1:]
    text = (nl + nl).join(defs)
    if "cr" in deco:
        # a lone carriage return is a line terminator too
        text = text.replace("{" + nl, "{\r" + (nl if False else ""), 1)
    if "leadingblank" in deco:
        text = nl + nl + "  " + nl + text
    if "notrailingnewline" not in deco:
        text += nl
    if "bom" in deco:
        text = "\ufeff" + text       # a byte order mark is ignored by GraphQL (spec 2.1.1) but is part of the text
    return text


def fields_of(struct):
    return {f["wire"]: f for f in struct["fields"]}


def check_module(case, text, modname, mod, top, which_names):
    """Return list of problems for one emitted module."""
    probs = []
    items = mod["items"]
    q = items["consts"].get("QUERY", {}).get("value")
    if q != text:
        probs.append("QUERY differs from the source text (len %s vs %d)%s" % (
            None if q is None else len(q), len(text), "" if q is None else ": first difference at %d" % next(
                (i for i in range(min(len(q), len(text))) if q[i] != text[i]), min(len(q), len(text)))))
    opname = items["consts"].get("OPERATION_NAME", {}).get("value")
    if opname not in case["ops"]:
        probs.append("OPERATION_NAME %r is not the unmodified name of an operation of the document %s" % (opname, case["ops"]))
        return probs, opname
    if opname not in which_names:
        probs.append("module is about operation %r, which the request (%r, %s, %s) does not select (%s)" % (
            opname, case["requested"], case["normalization"], case["mode"], sorted(which_names)))
    k = case["ops"].index(opname) + 1
    rd = items["structs"].get("ResponseData")
    va = items["structs"].get("Variables")
    if not rd:
        probs.append("no ResponseData struct")
    else:
        keys = {w for w, f in fields_of(rd).items() if not f["attrs"]["serde"].get("flatten")}
        if keys != {"f%d" % k}:
            probs.append("ResponseData has fields %s, operation %s selects f%d" % (sorted(keys), opname, k))
    if not va:
        probs.append("no Variables struct")
    else:
        keys = set(fields_of(va))
        if keys != {"v%d" % k, "w"}:
            probs.append("Variables has fields %s, operation %s declares v%d, w" % (sorted(keys), opname, k))
    return probs, opname


def run(ck, cases, tier, compile_n):
    workdir = os.path.join(vlib.WORK, "c05")
    os.makedirs(os.path.join(workdir, "q"), exist_ok=True)
    spath = os.path.join(workdir, "schema.graphql")
    vlib.write_if_changed(spath, SCHEMA)
    jobs, meta = [], {}
    for n, c in enumerate(cases):
        text = render(c)
        opts = {"mode": c["mode"], "normalization": c["normalization"], "module_visibility": "pub",
                "variables_derives": "Deserialize"}
        if c["requested"]:
            opts["operation_name"] = c["requested"]
            if c["mode"] == "derive":
                opts["struct_ident"] = c["requested"]
        route = "file" if n % 2 == 0 else "string"
        job = {"id": n, "schema_path": spath, "options": opts, "want_tokens": True, "want_inventory": True}
        if route == "file":
            qp = os.path.join(workdir, "q", "doc_%s.graphql" % vlib.stable_hash([c["ops"], sorted(c["deco"]), c["fragsAt"]]))
            with open(qp, "w", newline="", encoding="utf-8") as f:
                f.write(text)
            job["query_path"] = qp
            opts["query_file"] = qp
        else:
            job["query"] = text
        jobs.append(job)
        meta[n] = (c, text, route)
    results, proc = vlib.gqlv("gen", jobs, timeout=2400)
    if len(results) != len(jobs):
        raise ToolError("gqlv gen %d/%d: %s" % (len(results), len(jobs), proc.stderr[-1500:]))
    compile_cands = []
    kinds = {}
    for r in results:
        c, text, route = meta[r["id"]]
        ck.count()
        kinds[c["kind"]] = kinds.get(c["kind"], 0) + 1
        name = "sel-%s" % vlib.stable_hash([c, route])
        rep = {"case": c, "route": route, "query": text, "observed": {k: v for k, v in r.items() if k not in ("tokens", "inventory")}}
        key = "%s|%s" % (c["kind"], "+".join(sorted(c["deco"])) or "plain")
        if r["id"] % 900 == 5:
            ck.sample({"case": c, "route": route, "query": text, "status": r["status"]})
        if c["kind"] == "notfound":
            if r["status"] == "ok":
                ck.violation(name, rep, "C05: derive mode, struct `%s` (%s) matches none of %s, but code was generated" % (
                    c["requested"], c["normalization"], c["ops"]), case_key=key)
            elif r["status"] == "err":
                missing = [o for o in c["ops"] if o not in r.get("msg", "")]
                if missing:
                    ck.violation(name, rep, "C05: the not-found error does not name the operations %s: %s" % (missing, r.get("msg")), case_key=key)
            continue
        if r["status"] != "ok":
            ck.violation(name, rep, "C05: generation failed (%s: %s) for a document / selection that is valid:\n%r" % (
                r["status"], (r.get("msg") or "")[:300], text[:300]), case_key=key, signature=r.get("msg") or "")
            continue
        inv = r.get("inventory")
        if not inv:
            ck.violation(name, rep, "C05: generated tokens do not parse: %s" % r.get("parse_error"), case_key=key)
            continue
        mods = inv["mods"]
        which_names = {c["ops"][i - 1] for i in c["which"]}
        expect_n = 1 if c["kind"] == "one" else len(c["ops"])
        problems = []
        if len(mods) != expect_n:
            problems.append("%d module(s) emitted, expected %d" % (len(mods), expect_n))
        seen_ops = []
        for mn, m in mods.items():
            pr, opname = check_module(c, text, mn, m, inv, which_names)
            problems += pr
            seen_ops.append(opname)
        if c["kind"] == "all" and sorted(x for x in seen_ops if x) != sorted(c["ops"]):
            problems.append("modules are about %s, expected one per operation of %s" % (seen_ops, c["ops"]))
        if problems:
            ck.violation(name, rep, "C05 (%s route, %s, requested %r, %s): %s\n%r" % (
                route, c["mode"], c["requested"], c["normalization"], "; ".join(problems), text[:400]), case_key=key)
        elif c["kind"] == "one" and c["mode"] == "cli":
            compile_cands.append((r, c, text, seen_ops[0]))
    ck.notes["selection_kinds"] = kinds
    # ---- compiled sample: to_value(build_query(..))
    rng = random.Random(vlib.seed())
    sample = rng.sample(compile_cands, min(compile_n, len(compile_cands)))
    cons = Consumers("c05", nbins=8)
    cmeta = {}
    for r, c, text, opname in sample:
        cid = "c%s" % vlib.stable_hash([c, text])
        ident = c["requested"] if c["normalization"] == "none" else None
        # struct identifier = normalised operation name
        inv = r["inventory"]
        ident = [n for n, s in inv["structs"].items() if s["unit"]]
        if len(ident) != 1 or ident[0] in inv["mods"]:
            # an operation whose name is its own snake_case form gives a struct and a module of the
            # same name (E0428): a C02 finding, not a C05 matter
            continue
        cons.add_case(cid, "#![allow(warnings)]\n" + r["tokens"], ident[0], kinds=("vars",))
        cmeta[cid] = (c, text, opname)
    # an operation that declares no variables: the request body still has exactly the three members
    novars_text = "query NoVars {\n  f1\n}\n"
    rs, _ = vlib.gqlv("gen", [{"id": "novars", "schema_path": spath, "query": novars_text, "want_tokens": True,
                               "options": {"mode": "cli", "module_visibility": "pub", "variables_derives": "Deserialize"}}])
    if rs[0]["status"] == "ok":
        cons.add_case("novars", "#![allow(warnings)]\n" + rs[0]["tokens"], "NoVars", kinds=("vars",))
        cmeta["novars"] = ({"ops": ["NoVars"], "requested": "", "normalization": "none", "mode": "cli", "novars": True}, novars_text, "NoVars")
    else:
        ck.violation("novars-gen", {"query": novars_text, "observed": rs[0]}, "C05: generation failed for an operation without variables: %s" % rs[0].get("msg"),
                     case_key="novars")
    if cmeta:
        errs = cons.build()
        vjobs = []
        for cid, (c, text, opname) in cmeta.items():
            if cid in errs:
                ck.violation("compile-%s" % cid, {"case": c, "query": text, "errors": errs[cid][:3]},
                             "C05: generated module does not compile: %s" % errs[cid][0][:200], case_key="compile")
                continue
            if c.get("novars"):
                vjobs.append({"id": cid, "case": cid, "kind": "vars", "input": None})
                continue
            k = c["ops"].index(opname) + 1
            vjobs.append({"id": cid, "case": cid, "kind": "vars", "input": {"v%d" % k: 5, "w": "x"}})
        obs = cons.run(vjobs)
        for cid, res in obs.items():
            c, text, opname = cmeta[cid]
            ck.count()
            k = c["ops"].index(opname) + 1
            want = {"variables": {"v%d" % k: 5, "w": "x"}, "query": text, "operationName": opname}
            if c.get("novars"):
                want = {"variables": None, "query": text, "operationName": opname}
            if res.get("ok") != want:
                ck.violation("body-%s" % cid, {"case": c, "query": text, "observed": res, "expected": want},
                             "C05: serialised build_query is %s, expected exactly %s" % (
                                 json.dumps(res)[:300], json.dumps(want)[:300]), case_key="body")
        ck.notes["compiled_bodies"] = len(obs)


def suite_pipeline(ck, selftest=False):
    """(iv) the stage events of the derives in the repository's OWN test crates (its fixture documents, with
    several operations per file selected by struct name) validated against GraphqlClient.tla"""
    import suite, re
    lines = suite.record()
    if not lines:
        raise ToolError("no derive events from the repository's test crates")
    trace = suite.pipeline_trace(lines, None)
    if selftest:
        j = next(k for k, e in enumerate(trace) if e["a"] == "Selected")
        trace[j] = dict(trace[j], names=trace[j]["names"] + ["Extra"])
    tpath = os.path.join(vlib.WORK, "suite", "pipeline_trace.ndjson")
    with open(tpath, "w") as f:
        for t in trace:
            f.write(json.dumps(t) + "\n")
    rt = vlib.run_tlc("Trace_Pipeline", "Trace_Pipeline.cfg", env={"TRACE": tpath}, dfs=True, timeout=900)
    ck.add_tlc(rt)
    ck.count(len(lines))
    ck.notes["repository_test_crates"] = {"derives": len(lines), "pipeline_trace_events": len(trace)}
    if not rt["ok"]:
        m = re.search(r'"UNMATCHED", (\d+)', rt["out"])
        i = int(m.group(1)) if m else 0
        start = max([j for j in range(min(i, len(trace))) if trace[j]["a"] == "Begin"] or [0])
        ck.violation("suite-pipeline-%s" % vlib.stable_hash(trace[start]), {"call": trace[start], "events": trace[start:i + 1], "violated": rt["violated"],
                                                                           "tlc": rt["out"][-800:]},
                     "C05(iv): stage events of a derive in the repository's own tests are not a behaviour of GraphqlClient.tla (%s): inputs %s, events %s" % (
                         rt["violated"] or "rejected", json.dumps({k: trace[start][k] for k in ("ops", "requested", "normalization", "mode")}),
                         json.dumps([(t["a"], t["names"] or t["name"] or t["outcome"]) for t in trace[start + 1:i + 1]])[:300]),
                     case_key="suite-pipeline")


def pipeline_trace(ck, cases, tier, selftest=False):
    """(iii) stage events of real calls validated against GraphqlClient.tla by TLC (Trace_Pipeline)"""
    import random
    rng = random.Random(vlib.seed() + 7)
    workdir = os.path.join(vlib.WORK, "c05")
    spath = os.path.join(workdir, "schema.graphql")
    sel = rng.sample(cases, min(len(cases), 250 if tier == "quick" else 3000))
    calls, info = [], []
    for n, c in enumerate(sel):
        variant = n % 5
        text = render(c)
        loadable, valid = True, True
        job = {"id": n, "schema_path": spath, "options": {"mode": c["mode"], "normalization": c["normalization"]},
               "want_tokens": False}
        if c["requested"]:
            job["options"]["operation_name"] = c["requested"]
            if c["mode"] == "derive":
                job["options"]["struct_ident"] = c["requested"]
        if variant == 3:
            text = text.replace("f1", "nope", 1)          # unknown field: resolution fails
            valid = "f1" not in render(c) and True or False
            valid = False if "nope" in text else True
        if variant == 4:
            job["query_path"] = os.path.join(workdir, "q", "does_not_exist_%d.graphql" % n)
            loadable = False
        else:
            job["query"] = text
        calls.append({"call": "c%d" % n, "job": job})
        info.append({"ops": c["ops"], "requested": c["requested"], "normalization": c["normalization"], "mode": c["mode"],
                     "loadable": loadable, "valid": valid})
    res = vlib.gqlv_isolated("threads", {"id": 0, "threads": [{"id": 1, "calls": calls}], "schedule": None}, timeout=600)
    if res.get("timeout") or not res.get("result"):
        ck.violation("pipeline-run", {"run": str(res)[:1000]}, "C05(iii): the driver process running %d calls did not finish: %s" % (len(calls), str(res)[:300]),
                     case_key="pipeline-crash")
        return
    out = res["result"]
    results = out["results"].get("t1", [])
    evs = sorted(out["events"], key=lambda e: e["seq"])
    trace, k = [], -1
    blank = {"a": "", "ops": [], "requested": "", "normalization": "", "mode": "", "loadable": True, "valid": True,
             "names": [], "name": "", "outcome": ""}
    for e in evs:
        if e["event"] == "CallBegin":
            k += 1
            trace.append(dict(blank, a="Begin", **info[k]))
        elif e["event"] == "Resolved":
            trace.append(dict(blank, a="Resolved"))
        elif e["event"] == "Selected":
            trace.append(dict(blank, a="Selected", names=[x for x in e["key"].split(",") if x]))
        elif e["event"] == "Rendered":
            trace.append(dict(blank, a="Rendered", name=e["key"]))
        elif e["event"] == "CallEnd":
            st = results[k]["status"] if k < len(results) else "missing"
            trace.append(dict(blank, a="End", outcome=st))
    if selftest and len(trace) > 5:
        i = next(j for j, t in enumerate(trace) if t["a"] == "Rendered")
        del trace[i]
    tpath = os.path.join(workdir, "pipeline_trace.ndjson")
    with open(tpath, "w") as f:
        for t in trace:
            f.write(json.dumps(t) + "\n")
    rt = vlib.run_tlc("Trace_Pipeline", "Trace_Pipeline.cfg", env={"TRACE": tpath}, dfs=True, timeout=900)
    ck.add_tlc(rt)
    ck.count(len(calls))
    ck.notes["pipeline_trace_events"] = len(trace)
    if not rt["ok"]:
        import re
        m = re.search(r'"UNMATCHED", (\d+)', rt["out"])
        i = int(m.group(1)) if m else 0
        start = max([j for j in range(min(i, len(trace))) if trace[j]["a"] == "Begin"] or [0])
        ck.violation("pipeline-trace-%s" % vlib.stable_hash(trace[start]), {"call": trace[start], "events": trace[start:i + 1], "violated": rt["violated"],
                                                                            "tlc": rt["out"][-800:]},
                     "C05(iii): stage events of a real call are not a behaviour of GraphqlClient.tla (%s): inputs %s, events %s" % (
                         rt["violated"] or "event rejected", json.dumps({k2: trace[start][k2] for k2 in ("ops", "requested", "normalization", "mode", "loadable", "valid")}),
                         [(t["a"], t["names"] or t["name"] or t["outcome"]) for t in trace[start + 1:i + 1]]),
                     case_key="pipeline")


def main(tier, replay=None, selftest=False):
    ck = Check(PROP, tier)
    vlib.build_harness()
    if replay:
        rep = json.load(open(replay))
        run(ck, [rep["case"]] * 2, tier, 0)
        return ck.finish(exhaustive=False, rule="replay")
    res = vlib.run_tlc("MC_C05", "MC_C05_%s.cfg" % tier, workers=8, heap="8g", timeout=2400)
    ck.add_tlc(res)
    if res["violated"]:
        raise ToolError("MC_C05: %s violated" % res["violated"])
    vlib.tlc_must_pass(res)
    cases = res["cases"]["CASE"]
    rng = random.Random(vlib.seed())
    if tier == "quick":
        # every (ops, requested, normalization, mode) combination with 4 seeded (decoration, fragment placement) picks,
        # plus every decoration set x mode at least once
        groups = {}
        for c in cases:
            groups.setdefault(json.dumps([c["ops"], c["requested"], c["normalization"], c["mode"]]), []).append(c)
        sel = []
        for g in groups.values():
            sel += rng.sample(g, min(4, len(g)))
        seen = {(tuple(sorted(c["deco"])), c["mode"], c["kind"]) for c in sel}
        for c in cases:
            k = (tuple(sorted(c["deco"])), c["mode"], c["kind"])
            if k not in seen:
                seen.add(k)
                sel.append(c)
        cases = sel
        compile_n = 40
    else:
        if len(cases) > 150000:
            cases = rng.sample(cases, 150000)
        compile_n = 400
    if selftest:
        cases[0] = dict(cases[0], kind="one", which=[1], mode="cli", requested=cases[0]["ops"][0], normalization="none")
        cases[0]["ops"] = list(reversed(cases[0]["ops"])) + ["Other"] if "Other" not in cases[0]["ops"] else cases[0]["ops"]
    run(ck, cases, tier, compile_n)
    pipeline_trace(ck, cases, tier, selftest)
    suite_pipeline(ck, selftest)
    ck.assumptions += ["name pool with normalisation near-misses (OpSelect!Camel is heck's UpperCamelCase on that pool)",
                       "QUERY / OPERATION_NAME are read with syn::LitStr::value (rustc's unescaping); a sample is compiled and observed through to_value(build_query)",
                       "cli/library calls whose explicit name matches nothing, and unselected documents whose operations collide after normalisation, are outside the statement"]
    return ck.finish(exhaustive=(tier == "thorough"),
                     rule="documents of 1..%d operations from the pool (any order) x requested name x normalization x mode x "
                          "decoration set x fragment placement; both the string and the file route" % (2 if tier == "quick" else 3))


if __name__ == "__main__":
    sys.exit(main("quick"))
