"""Projection from abstract cases (as emitted by the TLA+ models) to concrete
text: SDL, introspection JSON, query documents.  Part of the trusted base.

Abstract schema:
  {"types": [T...], "roots": {"query": name|None, "mutation":..., "subscription":...},
   "explicit_roots": bool}
  T = {"kind": OBJECT|INTERFACE|UNION|ENUM|SCALAR|INPUT_OBJECT, "name": str,
       "fields": [{"name", "type": TR, "args": [{"name","type":TR,"default":str?}],
                   "dep": None | {"reason": None|str}, "ext": bool}],
       "interfaces": [names], "members": [names], "values": [names],
       "inputFields": [{"name","type":TR,"default":str?}], "oneOf": bool}
  TR = {"q": ["R"|"L"...] outer->inner, "base": name}
"""
import json

BUILTIN_SCALARS = ["Int", "Float", "String", "Boolean", "ID"]


def type_text(tr):
    q, b = tr["q"], tr["base"]

    def go(i):
        if i == len(q):
            return b
        if q[i] == "R":
            return go(i + 1) + "!"
        return "[" + go(i + 1) + "]"
    return go(0)


def gql_string(s):
    out = ['"']
    for ch in s:
        if ch == '"':
            out.append('\\"')
        elif ch == "\\":
            out.append("\\\\")
        elif ch == "\n":
            out.append("\\n")
        elif ch == "\r":
            out.append("\\r")
        elif ch == "\t":
            out.append("\\t")
        else:
            out.append(ch)
    out.append('"')
    return "".join(out)


_DOCS = False     # set by sdl(docs=True): descriptions, comments, a custom directive everywhere it may appear


def _tag(n):
    return ' @tag(name: "%s")' % n if _DOCS else ""


def _desc(what, indent, k):
    """a description / comment in front of a definition; content that looks like SDL must stay text"""
    if not _DOCS:
        return ""
    pad = " " * indent
    if k % 3 == 0:
        return '%s"""\n%sThe %s. It says "hi", has a brace { } and a fake definition:\n%s  type Fake { id: ID! } union U = A | B  \\""" é ✓\n%s"""\n' % (pad, pad, what, pad, pad)
    if k % 3 == 1:
        return '%s"%s: line description with \\"quotes\\", # no comment, type X { }"\n' % (pad, what)
    return '%s# comment about %s: "type Person {" enum E { A }\n' % (pad, what)


def _dep_sdl(dep):
    if dep is None:
        return ""
    if dep.get("reason") is None:
        return " @deprecated"
    return " @deprecated(reason: %s)" % gql_string(dep["reason"])


def _args_sdl(args):
    if not args:
        return ""
    parts = []
    for k, a in enumerate(args):
        s = "%s: %s" % (a["name"], type_text(a["type"]))
        if a.get("default") is not None:
            s += " = " + a["default"]
        s += _tag("arg")
        if _DOCS:
            s = "\n" + _desc("argument " + a["name"], 4, k) + "    " + s
        parts.append(s)
    return "(" + ", ".join(parts) + ("\n  " if _DOCS else "") + ")"


def _fields_sdl(fields):
    lines = []
    for k, f in enumerate(fields):
        d, t = _dep_sdl(f.get("dep")), _tag("f" + f["name"])
        lines.append(_desc("field " + f["name"], 2, k) +
                     "  %s%s: %s%s" % (f["name"], _args_sdl(f.get("args")), type_text(f["type"]),
                                       (t + d) if k % 2 else (d + t)))
    return "\n".join(lines)


def sdl(schema, order=None, fold_extensions=True, declare_builtins=False, docs=False):
    """Render SDL. `order` is a permutation of type indices. With
    fold_extensions=False fields flagged ext go into `extend type` blocks placed last.
    docs=True adds what a real schema file has and the generator must ignore: descriptions,
    comments, a directive definition and its applications."""
    global _DOCS
    _DOCS = bool(docs)
    try:
        return _sdl(schema, order, fold_extensions, declare_builtins)
    finally:
        _DOCS = False


def _sdl(schema, order, fold_extensions, declare_builtins):
    types = schema["types"]
    idx = list(order) if order is not None else list(range(len(types)))
    out = []
    roots = schema.get("roots", {})
    if schema.get("explicit_roots"):
        parts = []
        for k in ("query", "mutation", "subscription"):
            if roots.get(k):
                parts.append("  %s: %s" % (k, roots[k]))
        out.append("schema {\n%s\n}" % "\n".join(parts))
    if declare_builtins:
        for b in BUILTIN_SCALARS:
            out.append("scalar %s" % b)
    if _DOCS:
        out.append('"a custom directive"\ndirective @tag(\n  "its argument"\n  name: String!, extra: [Int!] = [1, 2]\n) on '
                   'OBJECT | FIELD_DEFINITION | INTERFACE | UNION | ENUM | ENUM_VALUE | INPUT_OBJECT | '
                   'INPUT_FIELD_DEFINITION | ARGUMENT_DEFINITION | SCALAR')
    exts = []
    first_exts = []      # extensions written BEFORE the type they extend (legal: SDL is order independent)
    for i in idx:
        t = types[i]
        k = t["kind"]
        D = _desc("type " + t["name"], 0, i)
        if k == "SCALAR":
            out.append(D + "scalar %s%s" % (t["name"], _tag("scalar")))
        elif k == "ENUM":
            dv = t.get("deprecated_values") or {}
            out.append(D + "enum %s%s {\n%s\n}" % (t["name"], _tag("enum"), "\n".join(
                _desc("value " + v, 2, n) + "  " + v + (_dep_sdl(dv[v]) if v in dv else "") + _tag("v") + ("," if _DOCS else "")
                for n, v in enumerate(t["values"]))))
        elif k == "UNION":
            out.append(D + "union %s%s = %s%s" % (t["name"], _tag("union"), "| " if _DOCS else "", " | ".join(t["members"])))
        elif k == "INTERFACE":
            out.append(D + "interface %s%s {\n%s\n}" % (t["name"], _tag("iface"), _fields_sdl(t["fields"])))
        elif k == "OBJECT":
            impl = ""
            base_fields = t["fields"]
            ext_fields = []
            if not fold_extensions:
                base_fields = [f for f in t["fields"] if not f.get("ext")]
                ext_fields = [f for f in t["fields"] if f.get("ext")]
                if not base_fields:      # an object needs at least one field
                    base_fields, ext_fields = t["fields"], []
            ifaces = list(t.get("interfaces") or [])
            ext_ifaces = []
            if not fold_extensions and not ext_fields and t.get("ext_interfaces"):
                # an extension without fields: `extend type X implements I`
                ext_ifaces = [i for i in ifaces if i in t["ext_interfaces"]]
                ifaces = [i for i in ifaces if i not in ext_ifaces]
                if ext_ifaces:
                    (first_exts if t.get("ext_first") else exts).append(
                        "extend type %s implements %s" % (t["name"], " & ".join(ext_ifaces)))
            if ext_fields:
                # interfaces flagged ext are declared by the extension (`extend type X implements I {..}`)
                ext_ifaces = [i for i in ifaces if i in (t.get("ext_interfaces") or [])]
                ifaces = [i for i in ifaces if i not in ext_ifaces]
            if ifaces:
                impl = " implements " + " & ".join(ifaces)
            out.append(D + "type %s%s%s {\n%s\n}" % (t["name"], impl, _tag("obj"), _fields_sdl(base_fields)))
            if ext_fields:
                eimpl = (" implements " + " & ".join(ext_ifaces)) if ext_ifaces else ""
                (first_exts if t.get("ext_first") else exts).append(
                    "extend type %s%s {\n%s\n}" % (t["name"], eimpl, _fields_sdl(ext_fields)))
        elif k == "INPUT_OBJECT":
            one = " @oneOf" if t.get("oneOf") else ""
            lines = []
            for n, f in enumerate(t["inputFields"]):
                s = "  %s: %s" % (f["name"], type_text(f["type"]))
                if f.get("default") is not None:
                    s += " = " + f["default"]
                lines.append(_desc("input field " + f["name"], 2, n) + s + _tag("in"))
            out.append(D + "input %s%s%s {\n%s\n}" % (t["name"], _tag("input") if n % 2 else "", one + ("" if n % 2 else _tag("input")), "\n".join(lines)))
        else:
            raise ValueError(k)
    head = out[:1] if (out and out[0].startswith("schema {")) else []
    return "\n\n".join(head + first_exts + out[len(head):] + exts) + "\n"


def _kind_of(schema, name):
    if name in BUILTIN_SCALARS:
        return "SCALAR"
    for t in schema["types"]:
        if t["name"] == name:
            return t["kind"]
    raise KeyError(name)


def type_ref_json(schema, tr):
    q, b = tr["q"], tr["base"]

    def go(i):
        if i == len(q):
            return {"kind": _kind_of(schema, b), "name": b, "ofType": None}
        return {"kind": "NON_NULL" if q[i] == "R" else "LIST", "name": None, "ofType": go(i + 1)}
    return go(0)


def _named_ref(schema, name):
    return {"kind": _kind_of(schema, name), "name": name, "ofType": None}


INTROSPECTION_TYPES = [
    {"kind": "OBJECT", "name": "__Schema", "description": None, "fields": [
        {"name": "types", "description": None, "args": [],
         "type": {"kind": "NON_NULL", "name": None, "ofType": {"kind": "LIST", "name": None, "ofType": {
             "kind": "NON_NULL", "name": None, "ofType": {"kind": "OBJECT", "name": "__Type", "ofType": None}}}},
         "isDeprecated": False, "deprecationReason": None}],
     "inputFields": None, "interfaces": [], "enumValues": None, "possibleTypes": None},
    {"kind": "OBJECT", "name": "__Type", "description": None, "fields": [
        {"name": "name", "description": None, "args": [],
         "type": {"kind": "SCALAR", "name": "String", "ofType": None},
         "isDeprecated": False, "deprecationReason": None},
        {"name": "kind", "description": None, "args": [],
         "type": {"kind": "NON_NULL", "name": None, "ofType": {"kind": "ENUM", "name": "__TypeKind", "ofType": None}},
         "isDeprecated": False, "deprecationReason": None}],
     "inputFields": None, "interfaces": [], "enumValues": None, "possibleTypes": None},
    {"kind": "ENUM", "name": "__TypeKind", "description": None, "fields": None, "inputFields": None,
     "interfaces": None, "enumValues": [
         {"name": n, "description": None, "isDeprecated": False, "deprecationReason": None}
         for n in ["SCALAR", "OBJECT", "INTERFACE", "UNION", "ENUM", "INPUT_OBJECT", "LIST", "NON_NULL"]],
     "possibleTypes": None},
]


def introspection_json(schema, order=None, wrapped=False, include_builtins=True,
                       include_introspection_types=False, is_one_of=True, sparse=False, docs=False):
    """Render the introspection result of the schema.  `sparse` omits null members.
    docs=True fills in what a real server returns and the generator must ignore: descriptions,
    directives, specifiedByURL, isRepeatable, deprecated arguments / input fields."""
    types = schema["types"]
    idx = list(order) if order is not None else list(range(len(types)))
    jt = []
    for i in idx:
        t = types[i]
        k = t["kind"]
        o = {"kind": k, "name": t["name"], "description": None, "fields": None, "inputFields": None,
             "interfaces": None, "enumValues": None, "possibleTypes": None}
        if k in ("OBJECT", "INTERFACE"):
            fs = []
            for f in t["fields"]:
                dep = f.get("dep")
                fs.append({
                    "name": f["name"], "description": None,
                    "args": [{"name": a["name"], "description": None,
                              "type": type_ref_json(schema, a["type"]),
                              "defaultValue": a.get("default")} for a in (f.get("args") or [])],
                    "type": type_ref_json(schema, f["type"]),
                    "isDeprecated": dep is not None,
                    "deprecationReason": (dep or {}).get("reason"),
                })
            o["fields"] = fs
            if k == "OBJECT":
                o["interfaces"] = [_named_ref(schema, n) for n in t.get("interfaces", [])]
            else:
                o["interfaces"] = []
                o["possibleTypes"] = [_named_ref(schema, x["name"]) for x in types
                                      if x["kind"] == "OBJECT" and t["name"] in x.get("interfaces", [])]
        elif k == "UNION":
            o["possibleTypes"] = [_named_ref(schema, n) for n in t["members"]]
        elif k == "ENUM":
            dv = t.get("deprecated_values") or {}
            o["enumValues"] = [{"name": v, "description": None, "isDeprecated": v in dv,
                                "deprecationReason": (dv.get(v) or {}).get("reason")} for v in t["values"]]
        elif k == "INPUT_OBJECT":
            o["inputFields"] = [{"name": f["name"], "description": None,
                                 "type": type_ref_json(schema, f["type"]),
                                 "defaultValue": f.get("default")} for f in t["inputFields"]]
            if is_one_of:
                o["isOneOf"] = bool(t.get("oneOf"))
        elif k == "SCALAR":
            pass
        jt.append(o)
    if include_builtins:
        for b in BUILTIN_SCALARS:
            jt.append({"kind": "SCALAR", "name": b, "description": None, "fields": None,
                       "inputFields": None, "interfaces": None, "enumValues": None, "possibleTypes": None})
    if include_introspection_types:
        jt.extend(INTROSPECTION_TYPES)
    roots = schema.get("roots", {})

    def rt(k):
        return {"name": roots[k]} if roots.get(k) else None
    doc = {"__schema": {"queryType": rt("query"), "mutationType": rt("mutation"),
                        "subscriptionType": rt("subscription"), "types": jt, "directives": []}}
    if docs:
        def describe(v, what="schema"):
            if isinstance(v, dict):
                if "description" in v and v.get("name") is not None and v.get("kind") not in ("NON_NULL", "LIST"):
                    v["description"] = 'The %s %s. It says "hi", { } type Fake { id: ID! } \\ é ✓\nsecond line' % (what, v["name"])
                if v.get("kind") == "SCALAR" and "fields" in v:
                    v["specifiedByURL"] = "https://example.org/scalars/%s" % v["name"]
                for k, x in v.items():
                    describe(x, {"fields": "field", "args": "argument", "enumValues": "value", "inputFields": "input field",
                                 "types": "type"}.get(k, what))
                if "defaultValue" in v:                      # arguments and input fields (2021 spec)
                    v.setdefault("isDeprecated", False)
                    v.setdefault("deprecationReason", None)
            elif isinstance(v, list):
                for x in v:
                    describe(x, what)
        describe(doc)
        strref = {"kind": "NON_NULL", "name": None, "ofType": {"kind": "SCALAR", "name": "String", "ofType": None}}
        doc["__schema"]["description"] = "the schema"
        doc["__schema"]["directives"] = [
            {"name": "tag", "description": "a custom directive", "isRepeatable": False,
             "locations": ["OBJECT", "FIELD_DEFINITION", "INTERFACE", "UNION", "ENUM", "ENUM_VALUE", "INPUT_OBJECT",
                           "INPUT_FIELD_DEFINITION", "ARGUMENT_DEFINITION", "SCALAR"],
             "args": [{"name": "name", "description": "its argument", "type": strref, "defaultValue": None}]},
            {"name": "deprecated", "description": None, "isRepeatable": False,
             "locations": ["FIELD_DEFINITION", "ENUM_VALUE"],
             "args": [{"name": "reason", "description": None, "type": strref["ofType"], "defaultValue": "\"No longer supported\""}]},
            {"name": "oneOf", "description": None, "isRepeatable": False, "locations": ["INPUT_OBJECT"], "args": []},
        ]
    if sparse:
        doc = _strip_nulls(doc)
    if wrapped:
        doc = {"data": doc}
    return json.dumps(doc, indent=1)


def _strip_nulls(v):
    if isinstance(v, dict):
        return {k: _strip_nulls(x) for k, x in v.items() if x is not None}
    if isinstance(v, list):
        return [_strip_nulls(x) for x in v]
    return v


# --------------------------------------------------------------------------
# query documents
# --------------------------------------------------------------------------
def selection_text(sel, indent=1):
    """sel: list of nodes:
       {"k":"field","name","alias"?, "args"? (text), "sel": [...]}
       {"k":"typename"}
       {"k":"inline","on": name, "sel":[...]}
       {"k":"spread","name": fragment}"""
    pad = "  " * indent
    lines = []
    for n in sel:
        k = n["k"]
        if k == "typename":
            head = (n["alias"] + ": " if n.get("alias") else "") + "__typename"
            if n.get("sel"):
                lines.append(pad + head + " {")
                lines.append(selection_text(n["sel"], indent + 1))
                lines.append(pad + "}")
            else:
                lines.append(pad + head)
        elif k == "spread":
            lines.append(pad + "..." + n["name"])
        elif k == "inline":
            lines.append(pad + "... on %s {" % n["on"])
            lines.append(selection_text(n["sel"], indent + 1))
            lines.append(pad + "}")
        elif k == "field":
            head = n["name"]
            if n.get("alias"):
                head = n["alias"] + ": " + head
            if n.get("args"):
                head += "(" + n["args"] + ")"
            if n.get("sel"):
                lines.append(pad + head + " {")
                lines.append(selection_text(n["sel"], indent + 1))
                lines.append(pad + "}")
            else:
                lines.append(pad + head)
        else:
            raise ValueError(k)
    return "\n".join(lines)


def document_text(doc):
    """doc: {"defs": [ {"k":"op","kind":"query|mutation|subscription","name":str|None,
                         "vars":[{"name","type":TR,"default":text?}], "sel":[...], "bare": bool}
                      | {"k":"frag","name","on","sel"} ]}"""
    out = []
    for d in doc["defs"]:
        if d["k"] == "frag":
            out.append("fragment %s on %s {\n%s\n}" % (d["name"], d["on"], selection_text(d["sel"])))
        else:
            if d.get("bare"):
                out.append("{\n%s\n}" % selection_text(d["sel"]))
                continue
            head = d["kind"]
            if d.get("name"):
                head += " " + d["name"]
            vs = d.get("vars") or []
            if vs:
                parts = []
                for v in vs:
                    s = "$%s: %s" % (v["name"], type_text(v["type"]))
                    if v.get("default") is not None:
                        s += " = " + v["default"]
                    parts.append(s)
                head += "(" + ", ".join(parts) + ")"
            out.append("%s {\n%s\n}" % (head, selection_text(d["sel"])))
    return "\n\n".join(out) + "\n"
