"""Re-run, one check at a time, the checks of selected surviving mutants of a sweep (their stored diff is
re-applied to /repo and reverted).  usage: mutrecheck.py <results file> <n> [<n> ...]"""
import json, subprocess, sys
sys.path.insert(0, "/verif/tools")
import mutsweep
path, ns = sys.argv[1], [int(x) for x in sys.argv[2:]]
res = json.load(open(path))
for x in res:
    if x["n"] not in ns or "diff" not in x:
        continue
    open("/tmp/mut_current.diff", "w").write(x["diff"])
    subprocess.run(["git", "-C", "/repo", "apply", "/tmp/mut_current.diff"], check=True)
    try:
        only = [c for c in __import__("os").environ.get("ONLY", "").split(",") if c]
        rs = dict(x["checks"])
        rs.update(dict(mutsweep.run_check(c) for c in x["checks"] if not only or c in only))
    finally:
        subprocess.run(["git", "-C", "/repo", "checkout", "--", "."], check=True)
    x["checks"] = rs
    x["reported_by"] = sorted(c for c, r in rs.items() if r["exit"] == 1 and r["violation_lines"] > 0)
    x["tool_errors"] = sorted(c for c, r in rs.items() if r["exit"] == 2)
    x["rechecked_sequentially"] = True
    print(x["n"], x["file"], x["line"], x["reported_by"], x["tool_errors"], flush=True)
json.dump(res, open(path, "w"), indent=1)
