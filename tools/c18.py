"""C18 - the derive macro applies exactly the options written in #[graphql(...)].

(i)  MC_C18 (DeriveAttr.tla): TLC explores the positional scanner model on every
     arrangement and emits the arrangements with the reference options; the
     driver renders each arrangement as source text (literal styles, spacing,
     surrounding attributes, visibility) and runs the REAL attribute functions
     (attributes.rs included into the harness with #[path]).
(ii) real #[derive(GraphQLQuery)] in a consumer crate that lives in a
     sub-directory, compiled with the hooked derive: the recorded OptionsBuilt
     events are validated against the specification by TLC (Trace_C18) and the
     tokens the derive produced are compared with the library called with the
     same options.
(iii) the repository's OWN derive sites (its integration tests, ~40 derives over its fixture
     schemas): compiled with the hooked derive, attributes read from the source by an
     independent lexer (tools/suite.py), validated by the same Trace_C18 and compared with
     the library called with DeriveAttr!RefOptions of what is written.
"""
import json, os, re, shutil, sys
import vlib
from vlib import Check, ToolError

PROP = "C18"

STYLES = ["plain", "escaped", "raw", "rawhash"]
SPACINGS = ["normal", "compact", "airy"]
SURROUND = [
    ("#[derive(GraphQLQuery)]\n", ""),
    ("#[derive(Debug)]\n#[derive(GraphQLQuery)]\n#[allow(dead_code)]\n", "#[allow(missing_docs)]\n"),
    ("/// A doc comment with \"quotes\" and key = \"value\" text.\n#[derive(GraphQLQuery)]\n", "#[derive(Clone)]\n"),
]
VIS = ["", "pub ", "pub(crate) "]


def lit(value, style):
    if style == "plain":
        return json.dumps(value, ensure_ascii=False)
    if style == "escaped":
        out = []
        for i, ch in enumerate(value):
            if i % 3 == 0 or ch in '"\\':
                out.append("\\u{%x}" % ord(ch))
            else:
                out.append(ch)
        return '"' + "".join(out) + '"'
    if style == "raw":
        return 'r"' + value + '"'
    return 'r#"' + value + '"#'


def render_attr(entries, trailing, style, spacing):
    parts = []
    for e in entries:
        if e["kind"] == "kv":
            eq = "=" if spacing == "compact" else (" =\n        " if spacing == "airy" else " = ")
            parts.append(e["key"] + eq + lit(e["value"], style))
        elif e["kind"] == "flag":
            parts.append(e["key"])
        else:
            sep = "," if spacing == "compact" else ", "
            # (a trailing comma inside the list is legal attribute syntax too)
            parts.append(e["key"] + "(" + sep.join(lit(x, style) for x in e["items"]) + ("," if spacing == "airy" and e["items"] else "") + ")")
    sep = "," if spacing == "compact" else (" ,\n    " if spacing == "airy" else ", ")
    body = sep.join(parts) + ("," if trailing else "")
    if spacing == "airy":
        body = "\n    " + body + "\n"
    return "#[graphql(" + body + ")]"


def render_source(case, n, style, spacing, surround, vis, ident=None):
    pre, post = SURROUND[surround]
    return "%s%s\n%s%sstruct %s;" % (pre, render_attr(case["entries"], case["trailing"], style, spacing), post,
                                     VIS[vis], ident or ("Op%d" % n))


def expected_kv(case, k):
    o = case["options"]
    if k in ("query_path", "schema_path"):
        return {"ok": o[k]}
    if k in ("response_derives", "variables_derives", "custom_scalars_module"):
        return {"ok": o[k]["value"]} if o[k]["found"] else None
    return None


def part_i(ck, cases, tier):
    jobs, meta = [], {}
    for n, c in enumerate(cases):
        styles = STYLES if tier == "thorough" else [STYLES[n % 4]]
        for si, st in enumerate(styles):
            src = render_source(c, n, st, SPACINGS[(n + si) % 3], (n // 3 + si) % 3, (n // 5) % 3)
            jid = "%d|%s" % (n, st)
            jobs.append({"id": jid, "source": src})
            meta[jid] = (n, st, src)
    results, proc = vlib.gqlv("attrs", jobs, timeout=1200)
    if len(results) != len(jobs):
        raise ToolError("gqlv attrs: %d/%d\n%s" % (len(results), len(jobs), proc.stderr[-1500:]))
    for r in results:
        n, st, src = meta[r["id"]]
        c = cases[n]
        o = c["options"]
        ck.count()
        if n % 400 == 3:
            ck.sample({"source": src, "expected_options": o, "observed": {k: v for k, v in r.items() if k != "id"}})
        problems = []
        if "kv" not in r:
            problems.append("attribute functions failed: %s" % {k: v for k, v in r.items() if k != "id"})
        else:
            for k in ("query_path", "schema_path"):
                if r["kv"][k] != {"ok": o[k]}:
                    problems.append("%s: got %s, written %r" % (k, r["kv"][k], o[k]))
            for k in ("response_derives", "variables_derives", "custom_scalars_module"):
                got = r["kv"][k]
                if o[k]["found"]:
                    if got != {"ok": o[k]["value"]}:
                        problems.append("%s: got %s, written %r" % (k, got, o[k]["value"]))
                elif "ok" in got:
                    problems.append("%s: got %s although the key is absent" % (k, got))
            # documented defaults: deprecated = warn, normalization = none (lib.rs applies them when Err)
            dep = r["deprecation"].get("ok", "warn")
            if dep != o["deprecated"]:
                problems.append("deprecated: got %s (%s), expected %s" % (dep, r["deprecation"], o["deprecated"]))
            norm = r["normalization"].get("ok", "none")
            if norm != o["normalization"]:
                problems.append("normalization: got %s, expected %s" % (norm, o["normalization"]))
            if r["fragments_other_variant"] != o["fragments_other_variant"]:
                problems.append("fragments_other_variant: got %s, expected %s" % (r["fragments_other_variant"], o["fragments_other_variant"]))
            if r["skip_serializing_none"] != o["skip_serializing_none"]:
                problems.append("skip_serializing_none: got %s, expected %s" % (r["skip_serializing_none"], o["skip_serializing_none"]))
            got_list = r["extern_enums"].get("ok", [])
            if got_list != o["extern_enums"]:
                problems.append("extern_enums: got %s, expected %s" % (r["extern_enums"], o["extern_enums"]))
        if problems:
            ck.violation("attrs-%s-%s" % (st, vlib.stable_hash(src)), {"part": "i", "case": c, "source": src, "style": st, "observed": r},
                         "C18(i): %s\n%s" % ("; ".join(problems), src), case_key="attrs|%s" % st)


SCHEMA = '''schema { query: Query }
scalar Date
enum Color { RED GREEN }
enum Direction { UP DOWN }
interface Node { id: ID! }
type A implements Node { id: ID! a: Int old: Int @deprecated(reason: "gone") born: Date color: Color dir: Direction }
type B implements Node { id: ID! b: String }
type Query { node: Node a(color: Color, when: Date): A }
'''

MAIN = '''#![allow(warnings)]
use graphql_client::GraphQLQuery;
pub mod scalars { pub type Date = String; }
pub type Date = String;
#[derive(Debug, Clone, PartialEq, serde::Serialize, serde::Deserialize)]
pub enum Color { RED, GREEN }
#[derive(Debug, Clone, PartialEq, serde::Serialize, serde::Deserialize)]
pub enum Direction { UP, DOWN }
%s
fn main() {}
'''


def parse_dump(d):
    out = {}
    for part in d.split(";"):
        k, _, v = part.partition("=")
        out[k] = v
    return out


def obs_of(ev):
    """the options recorded in an OptionsBuilt event, in the vocabulary of Trace_C18"""
    d = parse_dump(ev["dump"])

    def opt(s):   # Some("x") -> x ; None -> None
        m = re.match(r'^Some\("(.*)"\)$', s)
        return json.loads('"' + m.group(1) + '"') if m else None
    return {
        "query_path": ev["query_path"], "schema_path": ev["schema_path"], "manifest_dir": ev["manifest_dir"],
        "response_derives": opt(d["response_derives"]) or "", "response_derives_set": d["response_derives"] != "None",
        "variables_derives": opt(d["variables_derives"]) or "", "variables_derives_set": d["variables_derives"] != "None",
        "custom_scalars_module": (opt(d["custom_scalars_module"]) or "").replace(" ", ""),
        "custom_scalars_module_set": d["custom_scalars_module"] != "None",
        "deprecated": {"None": "warn", "Some(Warn)": "warn", "Some(Allow)": "allow", "Some(Deny)": "deny"}.get(d["deprecation_strategy"], d["deprecation_strategy"]),
        "normalization": d["normalization"].lower(),
        "fragments_other_variant": d["fragments_other_variant"] == "true",
        "skip_serializing_none": d["skip_serializing_none"] == "true",
        "extern_enums": json.loads(d["extern_enums"]),
        "operation_name": opt(d["operation_name"]) or "", "struct_ident": opt(d["struct_ident"]) or "",
        "mode": d["mode"], "serde_path": d["serde_path"].replace(" ", "").strip('"'),
        "module_visibility": (opt(d["module_visibility"]) or "").replace(" ", ""),
        "query_file": opt(d["query_file"]) or "",
    }


def lib_options(o, ident, crate, vis="pub"):
    """library options equivalent to the reference options `o` of an attribute on `struct ident`"""
    lib = {"mode": "derive", "operation_name": ident, "struct_ident": ident,
           "normalization": o["normalization"], "deprecation": o["deprecated"],
           "fragments_other_variant": o["fragments_other_variant"], "skip_serializing_none": o["skip_serializing_none"],
           "module_visibility": vis, "serde_path": "graphql_client::_private::serde",
           "query_file": "%s/%s" % (crate, o["query_path"])}
    for k in ("response_derives", "variables_derives", "custom_scalars_module"):
        if o[k]["found"]:
            lib[k] = o[k]["value"]
    if o["extern_enums"]:
        lib["extern_enums"] = o["extern_enums"]
    return lib


def part_ii(ck, cases, tier):
    nsel = 24 if tier == "quick" else 120
    step = max(1, len(cases) // nsel)
    sel = list(range(0, len(cases), step))[:nsel]
    root = os.path.join(vlib.WORK, "consumers", "c18")
    crate = os.path.join(root, "sub", "dir", "crate0")
    os.makedirs(os.path.join(crate, "src"), exist_ok=True)
    os.makedirs(os.path.join(crate, "q"), exist_ok=True)
    os.makedirs(os.path.join(root, "sub", "dir", "schemas"), exist_ok=True)
    vlib.write_if_changed(os.path.join(root, "sub", "dir", "schemas", "schema.graphql"), SCHEMA)
    ops, structs = [], []
    for n in sel:
        ops.append("query Op%d($c: Color, $w: Date) {\n  node { __typename id ... on A { a } }\n  a(color: $c, when: $w) { id a old born color dir }\n}\n" % n)
        structs.append(render_source(cases[n], n, STYLES[n % 4], SPACINGS[n % 3], n % 3, 1))
    qrel = cases[sel[0]]["options"]["query_path"]        # the written value (contains a blank and a backslash)
    vlib.write_if_changed(os.path.join(crate, qrel), "\n".join(ops))
    # a decoy where a path "normalisation" of the written value would look
    os.makedirs(os.path.dirname(os.path.join(crate, qrel.replace("\\", "/"))), exist_ok=True)
    vlib.write_if_changed(os.path.join(crate, qrel.replace("\\", "/")), "query Decoy { node { __typename } }\n")
    vlib.write_if_changed(os.path.join(crate, "src", "main.rs"), MAIN % "\n\n".join(structs))
    vlib.write_if_changed(os.path.join(crate, "Cargo.toml"),
                          '[package]\nname = "c18_crate0"\nversion = "0.0.0"\nedition = "2018"\npublish = false\n\n'
                          '[workspace]\n\n[dependencies]\ngraphql_client = { path = "/repo/graphql_client" }\n'
                          'serde = { version = "1", features = ["derive"] }\nserde_json = "1"\n')
    if not os.path.exists(os.path.join(crate, "Cargo.lock")):
        shutil.copy(os.path.join(vlib.REPO, "Cargo.lock"), os.path.join(crate, "Cargo.lock"))
    target = os.path.join(vlib.WORK, "target-c18")
    trace = os.path.join(root, "trace.ndjson")
    if os.path.exists(trace):
        os.remove(trace)
    # force re-expansion so that the trace is complete
    os.utime(os.path.join(crate, "src", "main.rs"))
    p = vlib.sh(["cargo", "check", "--offline", "--message-format=short"], cwd=crate, timeout=1800,
                env={"CARGO_NET_OFFLINE": "true", "CARGO_TARGET_DIR": target, "GRAPHQL_CLIENT_VERIF_TRACE": trace,
                     "RUSTFLAGS": "--cfg graphql_client_verif --check-cfg cfg(graphql_client_verif)"})
    events = []
    if os.path.exists(trace):
        events = [json.loads(l) for l in open(trace) if l.strip()]
    byident = {e["ident"]: e for e in events}
    if p.returncode != 0 and not events:
        raise ToolError("derive consumer crate failed before any derive ran:\n%s" % p.stderr[-3000:])
    # trace file for TLC: one line per selected arrangement
    lines, genjobs = [], []
    for n in sel:
        c = cases[n]
        ev = byident.get("Op%d" % n)
        ck.count()
        if ev is None:
            ck.violation("derive-noevent-%d" % n, {"part": "ii", "case": c, "cargo_stderr": p.stderr[-2000:]},
                         "C18(ii): the derive on Op%d produced no OptionsBuilt event (derive failed before building options?)" % n,
                         case_key="noevent")
            continue
        if ev["status"] == "options_err":
            ck.violation("derive-optionserr-%d" % n, {"part": "ii", "case": c, "event": ev},
                         "C18(ii): options could not be built for Op%d: %s" % (n, ev["msg"]), case_key="optionserr")
            continue
        obs = obs_of(ev)
        lines.append({"n": n, "ident": "Op%d" % n, "vis": "pub", "entries": c["entries"], "trailing": c["trailing"], "obs": obs})
        # the library called with the written options must give the same tokens
        o = c["options"]
        lib = lib_options(o, "Op%d" % n, crate)
        genjobs.append({"id": n, "schema_path": os.path.join(crate, o["schema_path"]),
                        "query_path": os.path.join(crate, o["query_path"]), "options": lib, "want_tokens": True})
    # (a) trace validation by TLC
    tpath = os.path.join(root, "trace_tlc.ndjson")
    with open(tpath, "w") as f:
        for l in lines:
            f.write(json.dumps(l) + "\n")
    if lines:
        res = vlib.run_tlc("Trace_C18", "Trace_C18.cfg", env={"TRACE": tpath, "CRATE_DIR": crate}, dfs=True, timeout=600)
        ck.add_tlc(res)
        if not res["ok"]:
            # the first unmatched event is printed by the postcondition
            m = re.search(r'"UNMATCHED", (\d+)', res["out"])
            k = int(m.group(1)) if m else None
            bad = lines[k - 1] if k and k <= len(lines) else None
            ck.violation("derive-trace-%s" % (bad["ident"] if bad else "unknown"),
                         {"part": "ii", "event": bad, "tlc": res["out"][-1500:]},
                         "C18(ii): trace of real derives rejected by Trace_C18 at event %s: observed options %s do not match the options written in %s"
                         % (k, bad and bad["obs"], bad and render_attr(bad["entries"], bad["trailing"], "plain", "normal")),
                         case_key="trace")
        ck.notes["derive_events_validated"] = len(lines)
    # (b) derive tokens == library tokens
    results, _ = vlib.gqlv("gen", genjobs)
    # token streams print differently inside a proc-macro: compare after re-printing both with proc_macro2
    nj = []
    for r in results:
        ev = byident.get("Op%d" % r["id"])
        if r["status"] == "ok" and ev["status"] == "ok":
            nj.append({"id": "l%d" % r["id"], "tokens": r["tokens"]})
            nj.append({"id": "d%d" % r["id"], "tokens": ev["tokens"]})
    norm = {x["id"]: x.get("norm") for x in vlib.gqlv("normtokens", nj)[0]}
    for r in results:
        ev = byident.get("Op%d" % r["id"])
        ck.count()
        if r["status"] != ev["status"] or (r["status"] == "ok" and (
                norm.get("l%d" % r["id"]) is None or norm.get("l%d" % r["id"]) != norm.get("d%d" % r["id"]))):
            ck.violation("derive-tokens-%d" % r["id"], {"part": "ii", "case": cases[r["id"]], "library": r, "derive": ev},
                         "C18(ii): the derive on Op%d did not produce what the library produces for the written options (library %s, derive %s)" % (
                             r["id"], r["status"], ev["status"]), case_key="tokens")


def part_iii(ck, tier, selftest=False):
    """(iii) the repository's own derive sites: the test crates of graphql_client compiled with the hooked derive.
    Attributes are read from the SOURCE by tools/suite.py; Trace_C18 validates the recorded options against
    DeriveAttr!RefOptions of what is written, and the derive's tokens are compared with the library called
    with those reference options."""
    import suite
    lines_raw = suite.record()
    cargo = suite.cargo_result()
    all_sites = suite.sites()
    if not lines_raw:
        raise ToolError("the repository's test crates produced no derive events:\n%s" % (cargo.stderr[-2000:] if cargo else ""))
    pairs, unmatched = suite.match_sites(lines_raw, all_sites)
    for ln, cands in unmatched:
        ck.count()
        ck.violation("suite-unmatched-%s" % ln["ident"], {"part": "iii", "event": {k: v for k, v in ln.items() if k not in ("tokens", "events", "pre_events")},
                                                           "candidates": cands},
                     "C18(iii): the derive on `%s` resolved query_path %s / schema_path %s, which no `#[graphql(...)]` on a struct of that name in %s writes" % (
                         ln["ident"], ln["query_path"], ln["schema_path"], suite.CRATE), case_key="suite-unmatched")
    seen_sites = {id(s) for _, s in pairs}
    wd = os.path.join(vlib.WORK, "suite")
    lines = []
    for n, (ln, site) in enumerate(pairs):
        if ln["status"] == "options_err":
            ck.count()
            ck.violation("suite-optionserr-%s" % ln["ident"], {"part": "iii", "site": site, "event": ln["msg"]},
                         "C18(iii): options could not be built for `%s` (%s): %s" % (ln["ident"], site["file"], ln["msg"]), case_key="suite-optionserr")
            continue
        lines.append({"n": n, "ident": ln["ident"], "vis": site["vis"], "entries": site["entries"], "trailing": site["trailing"],
                      "obs": obs_of(ln), "file": os.path.relpath(site["file"], vlib.REPO)})
    if selftest and lines:
        lines[0]["obs"]["normalization"] = "rust" if lines[0]["obs"]["normalization"] == "none" else "none"
    tpath = os.path.join(wd, "c18_trace.ndjson")
    with open(tpath, "w") as f:
        for l in lines:
            f.write(json.dumps(l) + "\n")
    res = vlib.run_tlc("Trace_C18", "Trace_C18.cfg", env={"TRACE": tpath, "CRATE_DIR": suite.CRATE}, dfs=True, timeout=600)
    ck.add_tlc(res)
    if not res["ok"]:
        m = re.search(r'"UNMATCHED", (\d+)', res["out"])
        k = int(m.group(1)) if m else None
        bad = lines[k - 1] if k and k <= len(lines) else None
        ck.violation("suite-trace-%s" % (bad["ident"] if bad else "unknown"), {"part": "iii", "event": bad, "tlc": res["out"][-1500:]},
                     "C18(iii): derive of the repository's own test `%s` (%s): observed options %s do not match the attribute written there: %s" % (
                         bad and bad["ident"], bad and bad["file"], bad and bad["obs"],
                         bad and render_attr(bad["entries"], bad["trailing"], "plain", "normal")), case_key="suite-trace")
    # reference options from the specification, then library vs derive tokens
    ref = vlib.run_tlc("MC_SuiteRef", "MC_SuiteRef.cfg", env={"TRACE": tpath}, timeout=600)
    ck.add_tlc(ref)
    vlib.tlc_must_pass(ref)
    refs = {r["n"]: r["options"] for r in ref["cases"].get("REF", [])}
    genjobs = []
    for l in lines:
        o = refs[l["n"]]
        genjobs.append({"id": l["n"], "schema_path": os.path.join(suite.CRATE, o["schema_path"]),
                        "query_path": "%s/%s" % (suite.CRATE, o["query_path"]), "want_tokens": True,
                        "options": lib_options(o, l["ident"], suite.CRATE, vis=l["vis"] or "inherited")})
    results, _ = vlib.gqlv("gen", genjobs)
    byn = {n: ln for n, (ln, site) in enumerate(pairs)}
    nj = []
    for r in results:
        ev = byn[r["id"]]
        if r["status"] == "ok" and ev["status"] == "ok":
            nj.append({"id": "l%d" % r["id"], "tokens": r["tokens"]})
            nj.append({"id": "d%d" % r["id"], "tokens": ev["tokens"]})
    norm = {x["id"]: x.get("norm") for x in vlib.gqlv("normtokens", nj)[0]}
    for r in results:
        ev = byn[r["id"]]
        ck.count()
        same = r["status"] == ev["status"] and (r["status"] != "ok" or (
            norm.get("l%d" % r["id"]) is not None and norm.get("l%d" % r["id"]) == norm.get("d%d" % r["id"])))
        if not same:
            l = next(x for x in lines if x["n"] == r["id"])
            ck.violation("suite-tokens-%s-%d" % (l["ident"], r["id"]), {"part": "iii", "site": l, "library": {k: v for k, v in r.items() if k != "tokens"},
                                                                      "derive_status": ev["status"], "derive_msg": ev.get("msg")},
                         "C18(iii): the derive on `%s` (%s) did not produce what the library produces for the written options (library %s, derive %s)" % (
                             l["ident"], l["file"], r["status"], ev["status"]), case_key="suite-tokens")
    ck.notes["repository_derive_sites"] = {"in_source": len(all_sites), "recorded": len(lines_raw), "validated": len(lines),
                                           "source_sites_never_recorded": len([s for s in all_sites if id(s) not in seen_sites])}
    if lines:
        ck.sample({"repository_test": lines[0]["file"], "struct": lines[0]["ident"], "entries": lines[0]["entries"], "observed": lines[0]["obs"]})


def main(tier, replay=None, selftest=False):
    ck = Check(PROP, tier)
    vlib.build_harness()
    res = vlib.run_tlc("MC_C18", "MC_C18_%s.cfg" % tier, workers=8, heap="8g", timeout=2400)
    ck.add_tlc(res)
    if res["violated"]:
        raise ToolError("MC_C18: %s violated (the scanner model disagrees with the reference meaning)" % res["violated"])
    vlib.tlc_must_pass(res)
    cases = res["cases"].get("CASE", [])
    if len(cases) < 500:
        raise ToolError("vacuous: %d arrangements" % len(cases))
    cases.sort(key=lambda c: json.dumps(c, sort_keys=True))
    if replay:
        rep = json.load(open(replay))
        cases = [rep["case"]]
        part_i(ck, cases, "thorough")
        return ck.finish(exhaustive=False, rule="replay")
    if selftest:
        cases[7]["options"]["normalization"] = "rust" if cases[7]["options"]["normalization"] == "none" else "none"
    part_i(ck, cases, tier)
    part_ii(ck, cases, tier)
    part_iii(ck, tier, selftest)
    ck.assumptions += ["one representative value per key (DeriveAttr!ValueOf); values are lower-case where the documentation shows lower-case",
                       "literal styles: plain, unicode-escaped, raw, raw with hashes; the derive sample is every k-th arrangement"]
    return ck.finish(exhaustive=True,
                     rule="every subset of <= %d optional keys + the two required ones, all permutations, trailing comma; "
                          "rendered in rotating literal styles / spacing / surrounding attributes / visibility" % (2 if tier == "quick" else 3))


if __name__ == "__main__":
    sys.exit(main("quick"))
