"""C09 - Rust-side options never change the JSON wire format.

Options.tla / MC_C09: TLC enumerates the lattice of wire-neutral options
(normalization, derive lists, visibility, custom-scalars module, extern enums,
serde path).  For programs from ProgGen (with variables of enum / custom scalar
/ input types added) and their vectors from the execution oracle, the driver
compiles one module per (program, option set) and demands that every vector -
conforming payload, corrupted payload, variables assignment - gives the same
observation as under the default option set.
"""
import json, os, random, sys
import vlib, render, prog, payload, progcheck
from consumer import Consumers
from vlib import Check, ToolError

PROP = "C09"

PRELUDE = '''#![allow(warnings)]
pub type Date = String;
// what a consumer supplies for an externally defined enum: the same open-world wire behaviour
#[derive(Debug, Clone, PartialEq)]
pub enum Color { RED, GREEN, Blue, Other(String) }
// the schema spells the enum `color_kind`; generated code refers to it by that name or, under
// normalization = rust, by `ColorKind`
pub type color_kind = Color;
pub type ColorKind = Color;
impl serde::Serialize for Color {
    fn serialize<S: serde::Serializer>(&self, s: S) -> Result<S::Ok, S::Error> {
        s.serialize_str(match self { Color::RED => "RED", Color::GREEN => "GREEN", Color::Blue => "blue", Color::Other(o) => o })
    }
}
impl<'de> serde::Deserialize<'de> for Color {
    fn deserialize<D: serde::Deserializer<'de>>(d: D) -> Result<Self, D::Error> {
        let s: String = serde::Deserialize::deserialize(d)?;
        Ok(match s.as_str() { "RED" => Color::RED, "GREEN" => Color::GREEN, "blue" => Color::Blue, _ => Color::Other(s) })
    }
}
'''

VARS = [{"name": "c", "type": {"q": [], "base": "color_kind"}}, {"name": "when", "type": {"q": ["R"], "base": "Date"}},
        {"name": "f", "type": {"q": [], "base": "Filter"}}, {"name": "cs", "type": {"q": ["L", "R"], "base": "color_kind"}}]
ASSIGNMENTS = [
    {"c": "RED", "when": "2020-01-01", "f": {"color": "blue", "when": None, "n": 3, "not": None}, "cs": ["GREEN", "blue"]},
    {"c": None, "when": "", "f": None, "cs": None},
    {"c": "PURPLE", "when": "x", "f": {"color": None, "when": "d", "n": None, "not": {"color": "RED", "when": None, "n": 1, "not": None}}, "cs": []},
    {"c": 5, "when": "x", "f": None, "cs": None},                 # invalid: must be rejected under every option set
    {"c": None, "f": None, "cs": None},                           # invalid: `when` is non-null
]


TYPE_RENAMES = {"Robot": "HTTPRobot", "Cat": "tabby_cat", "Color": "color_kind"}
EXTERN = {"Color": "color_kind"}       # Options.tla names the extern enum `Color`; the schema here spells it color_kind
OP_NAME = "myOp_query"


def rename_program(p):
    return prog.rename_program(p, TYPE_RENAMES, OP_NAME)


def opts_of(o):
    d = {"mode": "cli", "deprecation": "allow", "normalization": o["normalization"],
         "response_derives": o["response_derives"], "variables_derives": o["variables_derives"],
         "module_visibility": o["module_visibility"]}
    if o["custom_scalars_module"]:
        d["custom_scalars_module"] = o["custom_scalars_module"]
    if o["extern_enums"]:
        d["extern_enums"] = [EXTERN.get(o["extern_enums"], o["extern_enums"])]
    if o["serde_path"]:
        d["serde_path"] = o["serde_path"]
    return d


def main(tier, replay=None, selftest=False):
    ck = Check(PROP, tier)
    vlib.build_harness()
    rng = random.Random(vlib.seed())
    workdir = os.path.join(vlib.WORK, "c09")
    os.makedirs(workdir, exist_ok=True)
    res = vlib.run_tlc("MC_C09", "MC_C09.cfg", workers=2, timeout=600)
    ck.add_tlc(res)
    if res["violated"]:
        raise ToolError("MC_C09: %s violated" % res["violated"])
    vlib.tlc_must_pass(res)
    allopts = sorted(res["cases"]["OPTS"], key=lambda c: json.dumps(c, sort_keys=True))
    default = next(c["options"] for c in allopts if c["distance"] == 0)
    nprog, nopt = (36, 9) if tier == "quick" else (110, 20)
    sj, progs = progcheck.tlc_program_sample(ck, 1500 if tier == "quick" else 12000, nprog)
    # option sets: every single change of the default, then seeded ones; every option value is covered
    singles = [c["options"] for c in allopts if c["distance"] == 1]
    rest = [c["options"] for c in allopts if c["distance"] > 1]
    optsets = [default] + singles + rng.sample(rest, max(0, nopt - 1 - len(singles)))
    # normalization interacts with every name-carrying option: each single change also under normalization = rust
    for o in singles:
        if o["normalization"] == default["normalization"]:
            o2 = dict(o, normalization="rust")
            if o2 in rest and o2 not in optsets:
                optsets.append(o2)
    # schema: the universe + an input type
    sch = prog.rename_types(prog.schema_from_tla(sj, "full"), TYPE_RENAMES)
    progs = [rename_program(p) for p in progs]
    tr = lambda b, q=(): {"q": list(q), "base": b}
    sch["types"].append({"kind": "INPUT_OBJECT", "name": "Filter", "oneOf": False, "inputFields": [
        {"name": "color", "type": tr("color_kind")}, {"name": "when", "type": tr("Date")}, {"name": "n", "type": tr("Int")},
        {"name": "not", "type": tr("Filter")}]})
    sp = os.path.join(workdir, "universe.graphql")
    vlib.write_if_changed(sp, render.sdl(sch))
    if selftest:
        optsets[1] = dict(optsets[1], _selftest=True)
    jobs, meta = [], {}
    for pi, p in enumerate(progs):
        opi = next(i for i, d in enumerate(p["doc"]["defs"], start=1) if d["k"] == "op")
        text = prog.doc_text(p["doc"], {opi: VARS})
        p["text"] = text
        for oi, o in enumerate(optsets):
            jid = "%d|%d" % (pi, oi)
            # the wire-RELEVANT option skip_serializing_none is part of the base for every other program (the same
            # for the default and for every option set it is compared with)
            jobs.append({"id": jid, "schema_path": sp, "query": text, "options": dict(opts_of(o), skip_serializing_none=(pi % 2 == 1)), "want_tokens": True,
                         "want_inventory": bool(o["extern_enums"])})
            meta[jid] = (pi, oi)
    results, _ = vlib.gqlv("gen", jobs, timeout=2400)
    cons = Consumers("c09", nbins=(14 if tier == "quick" else 28))
    ok = {}
    for r in results:
        pi, oi = meta[r["id"]]
        ok[(pi, oi)] = r["status"]
        if r["status"] == "ok" and optsets[oi]["extern_enums"] and "inventory" in r:
            # extern_enums(X): the module refers to the consumer's X and defines no enum of its own for it
            ext = EXTERN.get(optsets[oi]["extern_enums"], optsets[oi]["extern_enums"])
            flat = lambda n: n.replace("_", "").lower()
            own = [n for m_ in r["inventory"]["mods"].values() for n in m_["items"]["enums"] if flat(n) == flat(ext)]
            ck.count()
            if own:
                ck.violation("extern-%s-o%d" % (progs[pi]["hash"], oi), {"query": progs[pi]["text"], "options": optsets[oi], "defined": own},
                             "C09: extern_enums(\"%s\") with options %s: the module still defines its own enum %s" % (
                                 ext, {k: v for k, v in optsets[oi].items() if v != default.get(k)}, own), case_key="extern-defined")
        if r["status"] == "ok":
            import re
            m = re.search(r"pub(?: \(crate\))? struct (\w+) ;", r["tokens"])
            cons.add_case("p%s_o%d" % (progs[pi]["hash"], oi), PRELUDE + r["tokens"], m.group(1) if m else "MyOp", kinds=("resp", "vars"))
    errs = cons.build()
    vj = []
    for pi, p in enumerate(progs):
        vecs = p["vectors"]
        if len(vecs) > 30:
            vecs = [vecs[0]] + rng.sample(vecs[1:], 29)
        p["sel"] = vecs
        for oi in range(len(optsets)):
            cid = "p%s_o%d" % (p["hash"], oi)
            if ok.get((pi, oi)) != "ok" or cid in errs:
                continue
            for vi, v in enumerate(vecs):
                pl = payload.decode(v["payload"])
                if optsets[oi].get("_selftest") and vi == 0:
                    pl = {"selftest": 1}
                vj.append({"id": "%d|%d|r%d" % (pi, oi, vi), "case": cid, "kind": "resp", "input": pl})
            for ai, a in enumerate(ASSIGNMENTS):
                vj.append({"id": "%d|%d|a%d" % (pi, oi, ai), "case": cid, "kind": "vars", "input": a})
    obs = cons.run(vj)

    def norm_obs(o):
        if o is None:
            return None
        if "ok" in o:
            return ("ok", json.dumps(o["ok"], sort_keys=True))
        if "err" in o:
            return ("err",)
        return tuple(sorted(o))
    for pi, p in enumerate(progs):
        for oi, o in enumerate(optsets):
            if oi == 0:
                continue
            changed = {k: o[k] for k in default if o.get(k) != default[k]}
            key = "|".join(sorted(changed)) or "same"
            name0 = "p%s-o%d" % (p["hash"], oi)
            ck.count()
            # generation / compilation must not depend on these options either
            st0, st = ok.get((pi, 0)), ok.get((pi, oi))
            c0, c1 = "p%s_o0" % p["hash"], "p%s_o%d" % (p["hash"], oi)
            if st0 != st or (c0 in errs) != (c1 in errs):
                ck.violation(name0 + "-build", {"query": p["text"], "options": o, "changed": changed,
                                                "default": [st0, errs.get(c0, [])[:2]], "with_options": [st, errs.get(c1, [])[:2]]},
                             "C09: options %s change whether code is generated / compiles (default: %s%s, with options: %s%s)\n%s" % (
                                 changed, st0, " compile error" if c0 in errs else "", st, " compile error: " + errs[c1][0][:150] if c1 in errs else "", p["text"][:300]),
                             case_key="build|" + key)
                continue
            if st0 != "ok" or c0 in errs:
                continue
            ids = ["r%d" % vi for vi in range(len(p["sel"]))] + ["a%d" % ai for ai in range(len(ASSIGNMENTS))]
            for vid in ids:
                a, b = obs.get("%d|0|%s" % (pi, vid)), obs.get("%d|%d|%s" % (pi, oi, vid))
                ck.count()
                if norm_obs(a) != norm_obs(b):
                    what = "payload" if vid[0] == "r" else "variables assignment"
                    inp = payload.decode(p["sel"][int(vid[1:])]["payload"]) if vid[0] == "r" else ASSIGNMENTS[int(vid[1:])]
                    ck.violation("%s-%s" % (name0, vid), {"query": p["text"], "options": o, "changed": changed, "input": inp,
                                                          "default_observation": a, "observation": b},
                                 "C09: options %s change the wire behaviour for a %s: default %s, with options %s\ninput: %s\n%s" % (
                                     changed, what, json.dumps(a)[:200], json.dumps(b)[:200], json.dumps(inp)[:200], p["text"][:300]),
                                 case_key="wire|" + key)
                    break
    ck.sample({"default": default, "option_sets": optsets[1:4], "query": progs[0]["text"]})
    ck.notes["option_sets"] = len(optsets)
    ck.notes["programs"] = len(progs)
    ck.assumptions += ["an externally defined enum is supplied by the consumer with the open-world wire behaviour of Enums.tla",
                       "observation only through <Op as GraphQLQuery>::{ResponseData, Variables} and JSON, never through Rust identifiers"]
    return ck.finish(exhaustive=False, rule="%d programs (covering sample) x %d option sets of the 576-element wire-neutral lattice, with and without skip_serializing_none as the base "
                                            "(the default, every single change, seeded combinations) x <=30 response vectors + 5 variable assignments" % (len(progs), len(optsets)))


if __name__ == "__main__":
    sys.exit(main("quick"))
