"""./check <id> [--tier quick|thorough] [--replay file] [--selftest]"""
import argparse, importlib, os, sys, traceback
sys.path.insert(0, os.path.dirname(os.path.abspath(__file__)))
import vlib


def main():
    ap = argparse.ArgumentParser()
    ap.add_argument("prop")
    ap.add_argument("--tier", default=os.environ.get("VERIF_TIER", "quick"), choices=["quick", "thorough"])
    ap.add_argument("--replay", default=None)
    ap.add_argument("--selftest", action="store_true")
    a = ap.parse_args()
    prop = a.prop.upper()
    try:
        mod = importlib.import_module(prop.lower())
    except ImportError as e:
        print("no check for %s: %s" % (prop, e), file=sys.stderr)
        return 2
    if a.replay:
        a.replay = os.path.abspath(a.replay)
        os.environ["VERIF_REPLAYING"] = "1"
    if a.selftest:
        os.environ["VERIF_REPLAYING"] = "1"     # a self-test must not replace the evidence of a real run
    try:
        if a.replay and "if replay" not in open(mod.__file__).read() and prop != "C03":
            # this driver has no single-case entry point: run the tier again (replay files and the evidence of
            # the full run are left alone) and report whether the SAME case - replay files are named by a stable
            # hash of the case - is a violation again
            import time
            t0 = time.time()
            mod.main(a.tier, replay=None, selftest=False)
            p = os.path.join(vlib.VERIF, "replays", prop, os.path.basename(a.replay))
            again = os.path.exists(p) and os.path.getmtime(p) >= t0 - 1
            print("replay of %s: %s" % (os.path.basename(a.replay), "violated again" if again else "holds now"), file=sys.stderr)
            return 1 if again else 0
        return mod.main(a.tier, replay=a.replay, selftest=a.selftest)
    except vlib.ToolError as e:
        print("TOOL-ERROR %s: %s" % (prop, e), file=sys.stderr)
        # violations already reported (VIOLATION lines with replay files are out) stay violations: a later part
        # of the check that could not run does not turn them into a tool error
        if vlib.CURRENT is not None and vlib.CURRENT.violations:
            print("[%s] %d violation(s) before the tool error" % (prop, len(vlib.CURRENT.violations)), file=sys.stderr)
            return 1
        return 2
    except Exception:
        traceback.print_exc()
        print("TOOL-ERROR %s: internal error in the check" % prop, file=sys.stderr)
        return 2


if __name__ == "__main__":
    sys.exit(main())
