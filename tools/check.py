"""./check <id> [--tier quick|thorough] [--replay file] [--selftest]"""
import argparse, importlib, os, sys, traceback
sys.path.insert(0, os.path.dirname(os.path.abspath(__file__)))
import vlib


def main():
    ap = argparse.ArgumentParser()
    ap.add_argument("prop")
    ap.add_argument("--tier", default=os.environ.get("VERIF_TIER", "quick"), choices=["quick", "thorough"])
    ap.add_argument("--replay", default=None)
    ap.add_argument("--selftest", action="store_true")
    a = ap.parse_args()
    prop = a.prop.upper()
    try:
        mod = importlib.import_module(prop.lower())
    except ImportError as e:
        print("no check for %s: %s" % (prop, e), file=sys.stderr)
        return 2
    if a.replay:
        a.replay = os.path.abspath(a.replay)
        os.environ["VERIF_REPLAYING"] = "1"
    try:
        return mod.main(a.tier, replay=a.replay, selftest=a.selftest)
    except vlib.ToolError as e:
        print("TOOL-ERROR %s: %s" % (prop, e), file=sys.stderr)
        return 2
    except Exception:
        traceback.print_exc()
        print("TOOL-ERROR %s: internal error in the check" % prop, file=sys.stderr)
        return 2


if __name__ == "__main__":
    sys.exit(main())
