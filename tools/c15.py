"""C15 - Response / Error envelope accepts and preserves every spec-shaped body.

TLC (MC_C15 over Envelope.tla) enumerates the response-body grammar exhaustively
within bounds, with the expected preserved content and the expected Display
line computed in the specification.  The driver feeds every body to
graphql_client::Response<serde_json::Map> built from /repo's working tree.
"""
import json, os, sys
import vlib, payload
from vlib import Check, ToolError

PROP = "C15"


def expand(s):
    for k, v in payload.ATOMS.items():
        s = s.replace(k, v)
    return s


def run(ck, cases):
    jobs = []
    for i, c in enumerate(cases):
        jobs.append({"id": i, "body": payload.decode(c["body"])})
    results, proc = vlib.gqlv("envelope", jobs, timeout=1200)
    if len(results) != len(jobs):
        raise ToolError("gqlv envelope: %d results for %d jobs\n%s" % (len(results), len(jobs), proc.stderr[-2000:]))
    classes = {}
    for r in results:
        c = cases[r["id"]]
        body = jobs[r["id"]]["body"]
        ck.count()
        cls = "%s/%s" % (c["dataState"], c["errState"])
        classes[cls] = classes.get(cls, 0) + 1
        if r["id"] % 5000 == 7:
            ck.sample({"body": body, "expected_display": [expand(d) for d in c["displays"]], "observed": r})
        name = "body-%s" % vlib.stable_hash(body)
        rep = {"case": c, "body": body, "observed": r}
        if r["parse"] != "ok":
            ck.violation(name, rep, "C15: spec-shaped body rejected (%s via %s): %s\n%s" % (
                r["parse"], r.get("route"), r.get("msg"), json.dumps(body)[:500]), case_key="parse")
            continue
        exp = payload.decode(c["expect"], pattern=True)
        m = payload.match(exp, r["reser"])
        if m:
            ck.violation(name, rep, "C15: content not preserved: %s\nbody: %s\nre-serialised: %s" % (
                m, json.dumps(body)[:400], json.dumps(r["reser"])[:400]), case_key="preserve")
            continue
        if not (r["roundtrip"] and r["roundtrip_str"] and r["err_roundtrip"] and r["same_routes"]):
            ck.violation(name, rep, "C15: deserialize(serialize(r)) != r (roundtrip=%s str=%s error=%s from_str==from_value: %s)\n%s" % (
                r["roundtrip"], r["roundtrip_str"], r["err_roundtrip"], r["same_routes"], json.dumps(body)[:400]),
                case_key="roundtrip")
            continue
        # Option members reflect presence
        want_data = c["dataState"] == "object"
        want_err = c["errState"] not in ("absent", "null")
        if r["data_is_some"] != want_data or r["errors_is_some"] != want_err:
            ck.violation(name, rep, "C15: presence lost: data_is_some=%s (want %s) errors_is_some=%s (want %s)\n%s" % (
                r["data_is_some"], want_data, r["errors_is_some"], want_err, json.dumps(body)[:400]), case_key="presence")
            continue
        want = [expand(d) for d in c["displays"]]
        if r["displays"] != want:
            ck.violation(name, rep, "C15: Display differs: got %r, expected %r\n%s" % (
                r["displays"], want, json.dumps(body)[:400]), case_key="display")
    ck.notes["classes"] = classes


def main(tier, replay=None, selftest=False):
    ck = Check(PROP, tier)
    vlib.build_harness()
    if replay:
        rep = json.load(open(replay))
        run(ck, [rep["case"]])
        return ck.finish(exhaustive=False, rule="replay")
    res = vlib.run_tlc("MC_C15", "MC_C15_%s.cfg" % tier, workers=1, heap="6g", timeout=1800)
    ck.add_tlc(res)
    if res["violated"]:
        raise ToolError("MC_C15: %s violated" % res["violated"])
    vlib.tlc_must_pass(res)
    cases = res["cases"].get("CASE", [])
    if len(cases) < 1000:
        raise ToolError("vacuous: %d cases" % len(cases))
    if selftest:
        cases[len(cases) // 2]["displays"] = ["selftest"]
    run(ck, cases)
    ck.assumptions += ["T = serde_json::Map<String, Value> (a data type that never serialises to null)",
                       "path keys are GraphQL names or arbitrary non-ASCII text without '/' at the end",
                       "atoms ($nonascii) are expanded identically in bodies and expected Display text"]
    return ck.finish(exhaustive=True,
                     rule="every body of the Envelope.tla grammar: data x errors(list shapes) x entry members "
                          "(message, locations, path, extensions, unknown) x top-level extensions x unknown member")


if __name__ == "__main__":
    sys.exit(main("quick"))
