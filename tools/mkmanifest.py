"""Regenerate MANIFEST.json from the table below (one entry per property that has a check)."""
import json, os, subprocess

V = os.path.dirname(os.path.dirname(os.path.abspath(__file__)))

# id -> (technique, level text, level note, design ref, category)
CHECKS = {
 "C13": ("TLA+ loop model of the extraction loops and decorate_type checked by TLC against the reference rule; every terminal state replayed into the real generator (syn-level comparison)",
         "Exhaustive TLC exploration of the algorithm model against the one-line rule on every well-formed type expression up to the depth bound; every emitted (expression, base kind, position, schema format) case executed on the real generator with the emitted field type compared structurally. The space is finite, so exhaustive enumeration is the right level.",
         "Trusted: TLC, the SDL/JSON renderer in tools/render.py, syn's printing of types. Bound: list depth 4 (quick) / 6 (thorough).",
         "DESIGN.md §5 C13", "model_checking"),
 "C06": ("TLA+ program generator (ProgGen) + reference validity (Gql!Valid) + edit catalogue (Edits) explored by TLC, lemma `every edit invalidates` model-checked; every (program, edit) replayed into the real generator",
         "TLC enumerates supported programs over the universe schema (seeded simulation; exhaustive small bound in the thorough tier) and applies every single invalidating edit of the rule catalogue at every applicable node; TLC itself checks that each edit breaks the reference validity predicate. Each edited document is rendered and fed to the real generator (SDL, introspection JSON and default-root-name renderings), which must never return Ok.",
         "Trusted: TLC, tools/render.py + tools/prog.py (projection, Apply of an edit). Reference validity is written from the GraphQL specification and the property text. Bounds: universe schema family, <=2-3 fragments, <=8 nodes per definition. One known finding (D8) is listed in known_findings.json.",
         "DESIGN.md §5 C06", "model_checking"),
 "C01": ("TLA+ program generator (ProgGen) + GraphQL execution-shape oracle (Exec.tla) evaluated by TLC; every (program, conforming payload) replayed through rustc-compiled generated types (serde_json from_value / to_value) and compared with the oracle's expected content",
         "TLC generates supported programs over the universe schema (seeded simulation, covering sample over grammar productions) and, per program, the conforming payloads within distance 1 of the baseline (plus positions exposed by a run-time type flip): each run-time type at each abstract position, null at each nullable position, list lengths 0/1/3, scalar boundary values, IDs as strings and integers. The real generator's output is compiled in consumer crates; every payload must deserialise and re-serialise to the oracle's expected pattern.",
         "Trusted: TLC, the projection (render.py, prog.py, payload.py), rustc + serde as installed. Bounds: universe schema family, <=2 fragments, <=7 nodes per definition, Fuel 4. Programs whose generated code does not compile are reported by C02/C12, not here.",
         "DESIGN.md §5 C01", "model_checking"),
 "C03": ("same TLC run and compiled consumer crates as C01; the oracle's single-point corruptions (null / delete at non-null positions, kind swaps, unknown or swapped __typename) must be rejected, under fragments_other_variant off and on",
         "For every sampled program TLC derives every single-point corruption of the conforming baseline with its expected verdict (reject; unknown __typename -> Unknown variant iff the option is on; a known __typename selects its own variant). Each is run through the compiled generated types.",
         "Trusted: as C01. The corruption table contains only swaps that are wrong under the GraphQL specification as well (no Float<-integer, no ID<-integer, no object<-[]).",
         "DESIGN.md §5 C03", "model_checking"),
 "C15": ("TLA+ grammar of GraphQL response bodies (Envelope.tla) enumerated exhaustively by TLC with expected preserved content and Display text; every body fed to graphql_client::Response / Error built from the working tree",
         "Exhaustive enumeration of the bounded response-body grammar (every optional member absent / null / present, error entries with locations, mixed paths, nested extension JSON, unknown members); expected content and the Display line are computed in the specification. Every body is parsed by both serde_json routes, re-serialised, round-tripped and displayed by the real types.",
         "Trusted: TLC, payload.py decoding, serde_json. T = serde_json::Map. Bounds: <=1 (quick) / 2 (thorough) error entries, fixed value pools per member.",
         "DESIGN.md §5 C15", "model_checking"),
 "C16": ("TLA+ value-class table (IdCoercion.tla) and ID type-expression x payload-variation model (MC_C16b) enumerated exhaustively by TLC; replayed (a) into the two serde_with helpers directly and (b) through generated code compiled in consumer crates at plain / flattened-fragment / union-variant positions and three schema renderings",
         "Exhaustive within bounds: every value class x both helper functions x both serde_json routes; every ID type expression up to list depth 2 (3 thorough) x leaf kinds, null at each level, absence, scalar-for-list, x three positions; generated code must type-check (rustc) and coerce exactly the ID members (siblings String / Int must not coerce).",
         "Trusted: TLC, projection, rustc + serde. Integers beyond the signed 64-bit range are outside the property.",
         "DESIGN.md §5 C16", "model_checking"),
 "C18": ("TLA+ model of the positional attribute scanner (DeriveAttr / MC_C18) model-checked by TLC against the reference meaning on every arrangement; arrangements replayed into the real attributes.rs; OptionsBuilt events of real hooked derives validated by TLC trace validation (Trace_C18) and derive tokens compared with the library's",
         "TLC explores the scanner model (one action per loop iteration of extract_attr / extract_attr_list / ident_exists) on every subset of <=2 (3 thorough) optional keys, all permutations, with and without trailing comma, and checks it returns exactly the written value or nothing. Every arrangement is rendered (4 literal styles, 3 spacings, surrounding attributes, visibilities) and fed to the real attribute functions; a sample is compiled as real derives in a crate living in a sub-directory with the hooked macro, and the recorded events (resolved paths, every option) are validated against the specification with TLC; the derive's tokens equal the library's for the written options.",
         "Trusted: TLC, the renderer of attribute text, syn. Hook: graphql_query_derive::verif (guarded). One representative value per key.",
         "DESIGN.md §5 C18", "model_checking"),
 "C08": ("TLA+ specification of the two process-wide caches (Cache.tla: one action per critical section, lock, poison) model-checked by TLC for Purity over all call histories and all lock-acquisition interleavings; TLC's histories and schedules replayed on the real hooked library (turn-taking hooks), outcomes compared with fresh-process baselines, and the recorded event traces validated against the specification by TLC (Trace_C08)",
         "TLC checks Purity, mutual exclusion and cache faithfulness of the design for every history of <=3 (4) calls over a 15-call alphabet (same file under different paths and spellings, same base name with different content, relative paths, missing / unparsable files, wrong extension, SDL vs JSON) and every interleaving of lock acquisitions of 2 (3) threads; with PoisonRecovery = FALSE it produces the poisoned-cache counterexample. The real code runs TLC's histories, TLC's schedules (order of lock acquisitions forced by hooks) and free-running 2..16-thread sets; every outcome must equal the same call alone in a fresh process (4-8 fresh processes per call, which also detects unordered-collection nondeterminism) and every event log must be a behaviour of the specification.",
         "Trusted: TLC, the event folding in tools/c08.py (structural), the hook in graphql_client_codegen::verif. Bounds as stated; nondeterminism across processes is detected probabilistically.",
         "DESIGN.md §5 C08", "model_checking"),
 "C05": ("TLA+ operation-selection reference (OpSelect.tla) enumerated exhaustively by TLC over documents x requested name x normalization x mode x text decoration; every case replayed into the real generator through the string and the file route (syn-level reading of QUERY / OPERATION_NAME / ResponseData / Variables) and a compiled sample observed through to_value(build_query); stage events (Resolved, Selected, Rendered) of real calls validated against the pipeline specification GraphqlClient.tla by TLC (Trace_Pipeline)",
         "Exhaustive over a name pool with normalisation near-misses, 1..2 (3) operations in any order, fragment placement and ten text decorations (CRLF, lone CR, tabs, commas, comments with quotes / non-ASCII, string escapes, block strings, no trailing newline, leading blank lines, astral characters). Each emitted module must carry the source text byte for byte, the unmodified name of one selected operation, and types derived from that same operation; derive mode must fail naming the operations when nothing matches.",
         "Trusted: TLC, the text renderer in tools/c05.py, syn::LitStr::value. heck's UpperCamelCase on the pool is a table in the spec. Name collisions of unselected multi-operation documents are outside the statement (recorded under C02).",
         "DESIGN.md §5 C05", "model_checking"),
 "C07": ("TLA+ description of schema variants and renderings (Frontends.tla) enumerated by TLC with the relation each pair must satisfy; every chosen pair rendered to files and the real generator's outcomes compared literally (and modulo item order across type orders)",
         "TLC enumerates variants of the universe schema (probe field type expression x base kind, deprecations with / without reason on objects and interfaces, @oneOf, implementors, union members, enum values, which root types exist) and rendering pairs {SDL, bare JSON, data-wrapped JSON} x type order x built-in scalars / introspection types listed x explicit / default / default-named-explicit roots x extensions folded (incl. `extend type ... implements`) x sparse JSON. For a kitchen-sink operation with variables of input types and sampled ProgGen operations, under three option sets, both renderings must give the identical token stream or the identical error.",
         "Trusted: TLC, tools/render.py (the two renderers are the projection: a rendering bug would show up as a disagreement, i.e. a false alarm, not a miss). The relation is between two outputs of the real code.",
         "DESIGN.md §5 C07", "model_checking"),
 "C17": ("TLA+ call-stack model of the generator's recursive graph walks (Walks.tla) model-checked by TLC on every directed graph (bounded stack and termination with a visited set; the unbounded stack without one); TLC's graphs turned into adversarial spread / input-type cycles and, with nesting, odd abstract types and broken texts, run through the real generator one isolated process per input",
         "TLC proves the stack bound of a visited-set DFS on all graphs with 3 (4) nodes and exhibits the violation without the visited set. Each graph becomes fragment-spread cycles on object / interface / union types (direct, through fields, through inline fragments, with and without __typename) and input-type cycles (non-null, nullable, list edges); plus cycles up to length 6, nesting depth up to 64 (128), interfaces without implementors, self-referential unions, truncated / garbage documents and schemas (SDL and JSON). Every input runs in its own process, which must exit with status 0 and a verdict within 20 s.",
         "Trusted: TLC; the case builder in tools/c17.py; process exit status as reported by the OS.",
         "DESIGN.md §5 C17", "model_checking"),
 "C14": ("TLA+ reference table of deprecation strategies (MC_C14) enumerated exhaustively by TLC over deprecation states of object and interface fields x strategy x schema format; every case replayed into the real generator (attributes and member lists read with syn), deny cases compiled and fed payloads containing the omitted fields",
         "Exhaustive over 4 deprecation states (none, bare, two reason texts incl. quotes / backslash / non-ASCII) of three object fields and one interface field x {allow, warn, deny, no strategy} x {SDL directive, JSON isDeprecated}; 13 selected members (direct, aliased, via fragment, inside an interface variant, object-typed) are checked per case against the reference: attribute exactly as documented, member omitted only under deny and only when deprecated in the scope it is selected in.",
         "Trusted: TLC, render.py, syn attribute parsing in gqlv inventory. Quick tier replays a seeded sample of 800 of the 2048 cases; thorough all.",
         "DESIGN.md §5 C14", "model_checking"),
 "C12": ("TLA+ graph models of input types (Inputs.tla: the DFS with its shared visited set and the boxing decision) and of fragment spreads (MC_C12f) model-checked by TLC against the finite-size criterion on every graph; every graph replayed into the real generator (by-value containment graph read with syn), compiled with rustc and round-tripped through JSON",
         "TLC checks on all input-type graphs over 2 types (3 in the thorough tier: model-checked exhaustively, replayed by seeded sample) with member kinds {T, T!, [T], [T!]!} and @oneOf flags that the implementation's decision (box iff the target is recursive without indirection) makes the by-value containment graph acyclic and coincides with `lies on a by-value cycle`; likewise for fragment spread graphs on 2 (3) fragments through nullable and list fields, where the non-transitive detection of the pinned tree is refuted. Every emitted graph is generated for real: token-level acyclicity for all, rustc (E0072) and JSON round trip of recursive values for all fragment graphs and a sample of input graphs.",
         "Trusted: TLC, render.py, the containment reader in tools/c12.py (Option inline; Vec and Box indirect), rustc.",
         "DESIGN.md §5 C12", "model_checking"),
 "C11": ("TLA+ keyword reference and binary-search model of the keyword table (Names.tla / MC_C11: lo/hi/mid actions, Sorted as the invariant the search depends on) model-checked by TLC for every needle, failing on an unsorted table; every name x position x normalization compiled with rustc and observed on the wire",
         "TLC checks that binary search over the transcribed table finds exactly the 52 keywords of the Rust Reference (2015-2021 strict + reserved + union) for every needle of the pool, and shows SearchCorrect violated when two entries are swapped. The finite product of 66 names (52 keywords + 14 naming styles) x {response field, alias, variable, input-object field, enum value} x {none, rust} is generated, compiled and exercised: the JSON key / string must be exactly the GraphQL name. A failing pack is bisected to the offending name.",
         "Trusted: TLC, the byte order of the pool written in the spec, rustc + serde. Names that collide after the generator's own renaming are kept in different modules.",
         "DESIGN.md §5 C11", "model_checking"),
 "C10": ("TLA+ reference of enum wire behaviour (Enums.tla: Deser / Ser, admissible definitions) enumerated exhaustively by TLC over enum definitions x normalization with the classification of every test string; replayed through generated enums compiled with rustc at three places (response field, variable, input-object field)",
         "Exhaustive over enum definitions of 1..2 (3) values from a 14-name pool (case twins, underscores, digits, Rust keywords, `Other_`) x {none, rust} x 25 strings (every pool value, near-misses, empty, non-ASCII, very long, `Other`): each schema value must deserialise to a non-Other variant of its own and back to exactly its name, every other string to Other(s) with Ser(Deser(s)) = s; distinct values give distinct variants; non-strings are rejected.",
         "Trusted: TLC, the Camel table for the pool, rustc + serde; variant identity is read from Debug output.",
         "DESIGN.md §5 C10", "model_checking"),
 "C04": ("TLA+ reference of variables on the wire (InputsExec.tla: assignments, explicit-null form, skip_serializing_none form, @oneOf, nested / recursive inputs) evaluated by TLC; every (declaration set, assignment) replayed through compiled generated Variables: expressibility by deserialising the intended value, then to_value(build_query) compared with the reference",
         "For each of 9 base types (5 built-in scalars, custom scalar, enum, a nested / recursive input object with keyword and mixed-case member names, an @oneOf input with scalar / list / enum / object / awkwardly named members) an operation declares a variable of every type expression up to list depth 2 (3); assignments are the baseline, every single-position alternative (None at each nullable member at two nesting levels, list lengths 0/1/3, each @oneOf member, enum values, scalar samples) and all-None. The serialised variables must equal the specification's wire form exactly - key sets, explicit nulls without skip_serializing_none, omissions with it - under both normalizations and both schema formats.",
         "Trusted: TLC, projection, rustc + serde. Nested objects are cut by Fuel (2 / 3 levels).",
         "DESIGN.md §5 C04", "model_checking"),
 "C09": ("TLA+ lattice of wire-neutral options (Options.tla) enumerated by TLC; metamorphic replay: programs and payload vectors from the ProgGen / Exec models compiled under each option set, every observation (verdict, re-serialised JSON, serialised request body) compared with the default option set",
         "TLC enumerates the 192 combinations of normalization, response / variables derive lists, module visibility, custom-scalars module, extern enums and serde path; a covering sample of programs (with non-UpperCamelCase type and operation names, and variables of enum / custom scalar / input types) is generated and compiled under the default, every single change and seeded combinations. For every conforming and corrupted payload of the execution oracle and five variable assignments (two invalid) the observation through JSON must be identical to the default's; so must be whether code is generated and compiles.",
         "Trusted: TLC, projection, rustc + serde; externally defined enums are supplied by the consumer with the reference open-world behaviour.",
         "DESIGN.md §5 C09", "model_checking"),
 "C19": ("TLA+ protocol model of `graphql-client generate` (CliGenerate.tla: flags -> generate -> format -> write -> exit, LibraryOptions, Destination) model-checked by TLC for every request; a pairwise-covering sample of requests executed with the real binary in scratch trees (before/after snapshots), output compared with the library called with the denoted options, and the recorded runs validated against the specification by TLC (Trace_C19)",
         "TLC explores all 110 592 requests (8 flags x 3 query file names incl. several dots and nested directories x placement x formatting x {valid, invalid query, missing query, broken schema}) and checks: success writes exactly one file at <dir>/<stem>.rs, failure writes nothing, exit status reflects the outcome. 70 (1500) real runs of the binary built from the working tree: exit status, exactly the expected file created and nothing else touched, content byte-identical to header + library tokens for LibraryOptions(flags) (through the same rustfmt when formatting is on), including re-generation over a longer previous output.",
         "Trusted: TLC, rustfmt as installed, the flag -> argv mapping in tools/c19.py. Output directories that do not exist are outside the statement.",
         "DESIGN.md §5 C19", "model_checking"),
 "C20": ("TLA+ protocol model of `graphql-client introspect-schema` (Introspect.tla: argument parsing incl. header strings, output file, request, server faults) model-checked by TLC over every scenario, refuting the early-open design; a covering sample of scenarios executed with the real binary against a loopback mock endpoint with scripted faults; recorded runs validated against the specification by TLC (Trace_C20)",
         "TLC checks on all 3456 scenarios (is-one-of x specify-by-url, bearer token, 13 header strings and pairs incl. repeated names in different case, output to file / stdout, existing file, 8 server behaviours: 200 + JSON, 200 + garbage, 404 / 500 with JSON, 400 / 503 with text, connection refused, connection closed mid-reply) that success delivers the server's JSON, failure leaves an existing file untouched, refused arguments send nothing; with OpenOutputEarly = TRUE it produces the truncation counterexample. 110 (2500) real runs: the request the mock saw (POST, exact document for the flags, matching operationName, every header name / value, bearer), exit status, stdout and file content are compared with the specification, the run log is validated by TLC, and the written file generates the same code as the served schema's SDL.",
         "Trusted: TLC, the mock server in tools/c20.py, reqwest's framing of the request. Loopback HTTP only.",
         "DESIGN.md §5 C20", "model_checking"),
 "C02": ("TLA+ option lattice x delivery form x consumer configuration (MC_C02 over Options.tla) and the supported-program generator (ProgGen) enumerated by TLC; every chosen case produced by the three real routes (library call, real #[derive(GraphQLQuery)], file written by the built CLI) and type-checked by rustc in consumer crates with and without a direct serde dependency",
         "TLC enumerates the 6528 admissible (option set, delivery form, consumer) configurations and the supported programs; a covering sample of programs, each made a two-operation document with shared fragments and variables of enum / custom scalar / nested input / @oneOf / [ID!]! types, is generated in all five (form, consumer) classes with option sets rotating over a pairwise cover (derives, normalization, deprecation strategy, other-variant, skip-none, custom scalars module, extern enums, visibility, serde path; SDL and JSON schemas). Generation must succeed and `cargo check` must report no error attributed to the case's file.",
         "Trusted: TLC, projection, rustc's diagnostics attribution by file. Known exclusions (recorded in known_findings.json / DESIGN.md): operation names that collide as module or struct names, selection paths that camel-case to the same type name.",
         "DESIGN.md §5 C02", "model_checking"),
}


def entry(pid):
    tech, text, note, dref, cat = CHECKS[pid]
    return {"property_id": pid, "quick_cmd": "./check %s --tier quick" % pid,
            "thorough_cmd": "./check %s --tier thorough" % pid,
            "evidence_file": "/verif/evidence/%s.json" % pid,
            "replay_cmd_template": "./check %s --replay {path}" % pid,
            "engine": "tlc+gqlv",
            "level_claimed": {"category": cat, "text": text, "design_ref": dref},
            "level_note": note, "technique": tech}


def main():
    props = [json.loads(l) for l in open(os.path.join(V, "properties.jsonl"))]
    built = sorted(CHECKS)
    hooks = []
    try:
        out = subprocess.check_output(["git", "-C", "/repo", "log", "--format=%h %s"]).decode().splitlines()
        hooks = [l.split()[0] for l in out if l.split(" ", 1)[1].startswith("verif-hook:")]
    except Exception:
        pass
    m = {"version": 1, "setup_cmd": "sh ./setup.sh",
         "hooks": {"guard": "graphql_client_verif",
                   "enable": "RUSTFLAGS='--cfg graphql_client_verif --check-cfg cfg(graphql_client_verif)' (set in /verif/harness/.cargo/config.toml; the harness has path dependencies on /repo's crates, so every check rebuilds from /repo's working tree)",
                   "baseline_off_cmd": "cd /repo && cargo test --workspace --no-fail-fast --offline",
                   "source_commits": hooks, "add_only": True},
         "engines": [{"name": "tlc+gqlv", "path": "/verif/check", "serves_properties": built,
                      "kind_free_text": "TLA+ specifications in /verif/spec checked with TLC; TLC-emitted cases replayed into the real code by the Rust driver harness/gqlv and the Python tools; traces recorded from the real code validated against trace specifications with TLC"}],
         "checks": [entry(p) for p in built],
         "not_applicable": [{"property_id": p["id"],
                             "reason": "machinery for this property is not built yet in this revision (work in progress; see DESIGN.md §11) - not a statement that the technique cannot apply"}
                            for p in props if p["id"] not in CHECKS],
         "notes": "See DESIGN.md. Exit codes of ./check: 0 held, 1 VIOLATION (replay file written), 2 tool error. Known findings: known_findings.json."}
    json.dump(m, open(os.path.join(V, "MANIFEST.json"), "w"), indent=1)
    print("MANIFEST: %d checks, %d not applicable" % (len(m["checks"]), len(m["not_applicable"])))


if __name__ == "__main__":
    main()
