"""C10 - generated enums are open-world string bijections.

MC_C10 (Enums.tla): TLC enumerates enum definitions (1..2 values from a pool
with case twins, underscores, digits, keywords; 3 in the thorough tier) x
normalization, with the reference classification of every test string
(schema value -> its own variant, anything else -> Other).  The driver packs the
enums into one schema, reaches each through a response field, a variable and an
input-object field, compiles, and checks deserialisation, variant identity
(Debug) and Ser(Deser(s)) = s for every string; non-strings must be rejected.
"""
import json, os, re, sys
import vlib, render, payload
from consumer import Consumers
from vlib import Check, ToolError

PROP = "C10"


def ident_key(x):
    return x.replace("r#", "").replace("_", "").lower()


def expand(s):
    return payload.ATOMS.get(s, s)


def main(tier, replay=None, selftest=False):
    ck = Check(PROP, tier)
    vlib.build_harness()
    workdir = os.path.join(vlib.WORK, "c10")
    os.makedirs(workdir, exist_ok=True)
    res = vlib.run_tlc("MC_C10", "MC_C10_%s.cfg" % tier, workers=4, timeout=900)
    ck.add_tlc(res)
    if res["violated"]:
        raise ToolError("MC_C10: %s violated" % res["violated"])
    vlib.tlc_must_pass(res)
    cases = res["cases"]["ENUM"]
    cases.sort(key=lambda c: json.dumps(c, sort_keys=True))
    if selftest:
        k = next(iter(cases[0]["expect"]))
        cases[0]["expect"][k] = "variant" if cases[0]["expect"][k] == "other" else "other"
    strings = sorted(cases[0]["expect"])
    tr = lambda b, q=(): {"q": list(q), "base": b}
    CH = 60   # enums per module
    jobs, meta = [], {}
    for norm in ("none", "rust"):
        cs = [c for c in cases if c["normalization"] == norm]
        for ch in range(0, len(cs), CH):
            chunk = cs[ch:ch + CH]
            types, ofields, infields, vars_ = [], [], [], []
            for k, c in enumerate(chunk):
                vals = sorted(c["values"])
                types.append({"kind": "ENUM", "name": "E%d" % k, "values": vals,
                              "deprecated_values": {vals[0]: {"reason": None}} if k % 2 == 0 else {vals[-1]: {"reason": "old"}}})
                ofields.append({"name": "e%d" % k, "type": tr("E%d" % k), "dep": None})
                infields.append({"name": "f%d" % k, "type": tr("E%d" % k)})
                vars_.append("$v%d: E%d" % (k, k))
            types.append({"kind": "OBJECT", "name": "Obj", "fields": ofields, "interfaces": []})
            types.append({"kind": "INPUT_OBJECT", "name": "In", "inputFields": infields})
            types.append({"kind": "OBJECT", "name": "Query", "interfaces": [],
                          "fields": [{"name": "o", "type": tr("Obj", ["R"]), "dep": None}]})
            schema = {"types": types, "roots": {"query": "Query"}, "explicit_roots": False}
            tag = "%s_%d" % (norm, ch // CH)
            if (ch // CH) % 2 == 0:
                sp = os.path.join(workdir, "s_%s.json" % tag)
                vlib.write_if_changed(sp, render.introspection_json(schema))
            else:
                sp = os.path.join(workdir, "s_%s.graphql" % tag)
                vlib.write_if_changed(sp, render.sdl(schema))
            q = "query MyOp(%s, $inp: In) {\n  o {\n%s\n  }\n}\n" % (
                ", ".join(vars_), "\n".join("    e%d" % k for k in range(len(chunk))))
            jobs.append({"id": tag, "schema_path": sp, "query": q, "want_tokens": True,
                         "options": {"mode": "cli", "module_visibility": "pub", "normalization": norm,
                                     "response_derives": "Debug, PartialEq, Serialize",
                                     "variables_derives": "Deserialize, Debug, PartialEq"}})
            meta[tag] = (norm, chunk, q, sp)
    results, _ = vlib.gqlv("gen", jobs)
    cons = Consumers("c10", nbins=8)
    for r in results:
        norm, chunk, q, sp = meta[r["id"]]
        if r["status"] != "ok":
            ck.count()
            ck.violation("gen-%s" % r["id"], {"normalization": norm, "enums": [c["values"] for c in chunk], "observed": r},
                         "C10: generation failed (%s): %s" % (r["status"], (r.get("msg") or "")[:300]), case_key="gen")
            continue
        cons.add_case("m_" + r["id"], "#![allow(warnings)]\n" + r["tokens"], "MyOp", kinds=("resp", "vars"))
    errs = cons.build()
    vj = []
    for tag, (norm, chunk, q, sp) in meta.items():
        cid = "m_" + tag
        if cid not in cons.cases:
            continue
        if cid in errs:
            ck.count()
            ck.violation("compile-%s" % tag, {"normalization": norm, "enums": [c["values"] for c in chunk], "errors": errs[cid][:4],
                                               "schema_path": sp},
                         "C10: enums do not compile (normalization %s): %s" % (norm, errs[cid][0][:200]), case_key="compile")
            continue
        n = len(chunk)
        for s in strings:
            v = expand(s)
            vj.append({"id": "%s|resp|%s" % (tag, s), "case": cid, "kind": "resp", "input": {"o": {"e%d" % k: v for k in range(n)}}})
            vars_in = {"v%d" % k: v for k in range(n)}
            vars_in["inp"] = {"f%d" % k: v for k in range(n)}
            vj.append({"id": "%s|vars|%s" % (tag, s), "case": cid, "kind": "vars", "input": vars_in})
        for bad in (1, True, [], {"a": 1}, 1.5):
            vj.append({"id": "%s|bad|%s" % (tag, json.dumps(bad)), "case": cid, "kind": "resp", "input": {"o": {"e0": bad}}})
    obs = cons.run(vj)
    dbgre = re.compile(r'e(\d+): (Some\()?(Other\("|[A-Za-z_][A-Za-z0-9_]*)')
    for j in vj:
        tag, kind, s = j["id"].split("|", 2)
        norm, chunk, q, sp = meta[tag]
        o = obs.get(j["id"], {})
        if kind == "bad":
            ck.count()
            if "ok" in o:
                ck.violation("nonstring-%s-%s" % (tag, s), {"input": j["input"], "observed": o},
                             "C10: a non-string (%s) was accepted as an enum value" % s, case_key="nonstring")
            continue
        v = expand(s)
        if kind == "resp":
            variants = {}
            if "ok" in o:
                for m in dbgre.finditer(o.get("dbg", "")):
                    variants[int(m.group(1))] = m.group(3)
            for k, c in enumerate(chunk):
                ck.count()
                key = "resp|%s|%s" % (norm, c["expect"][s])
                name = "resp-%s-%s-%s" % (norm, "_".join(sorted(c["values"])), vlib.stable_hash(s))
                rep = {"enum": sorted(c["values"]), "normalization": norm, "string": v, "expected": c["expect"][s], "place": "response field"}
                if "ok" not in o:
                    ck.violation(name, dict(rep, observed=o), "C10: response enum %s (normalization %s): string %r is rejected: %s" % (
                        sorted(c["values"]), norm, v[:40], o), case_key=key)
                    break
                back = o["ok"]["o"].get("e%d" % k)
                if back != v:
                    ck.violation(name, dict(rep, observed=back), "C10: enum %s (normalization %s): serialize(deserialize(%r)) = %r" % (
                        sorted(c["values"]), norm, v[:40], back), case_key=key)
                    continue
                var = variants.get(k)
                is_other = var == 'Other("'
                if (c["expect"][s] == "variant") == is_other:
                    ck.violation(name, dict(rep, observed_variant=var),
                                 "C10: enum %s (normalization %s): %r deserialises to %s, expected %s" % (
                                     sorted(c["values"]), norm, v[:40], "Other(..)" if is_other else "variant " + str(var),
                                     "its own variant" if c["expect"][s] == "variant" else "Other(..)"), case_key=key)
                elif c["expect"][s] == "variant" and var is not None and ident_key(var) != ident_key(v):
                    # "its own variant": the variant is named after THIS value (up to case, underscores and keyword
                    # escaping - whatever the naming scheme), not after a sibling value
                    ck.violation(name, dict(rep, observed_variant=var),
                                 "C10: enum %s (normalization %s): %r deserialises to variant %s, which is named after another value" % (
                                     sorted(c["values"]), norm, v[:40], var), case_key=key + "|identity")
            # distinct values -> distinct variants (same payload position, different strings): via Debug names
        else:
            got = (o.get("ok") or {}).get("variables") if "ok" in o else None
            for k, c in enumerate(chunk):
                ck.count()
                key = "vars|%s|%s" % (norm, c["expect"][s])
                name = "vars-%s-%s-%s" % (norm, "_".join(sorted(c["values"])), vlib.stable_hash(s))
                rep = {"enum": sorted(c["values"]), "normalization": norm, "string": v, "place": "variable / input field"}
                if got is None:
                    ck.violation(name, dict(rep, observed=o), "C10: variables with enum %s: string %r is rejected: %s" % (
                        sorted(c["values"]), v[:40], o), case_key=key)
                    break
                if got.get("v%d" % k) != v or (got.get("inp") or {}).get("f%d" % k) != v:
                    ck.violation(name, dict(rep, observed=[got.get("v%d" % k), (got.get("inp") or {}).get("f%d" % k)]),
                                 "C10: enum %s (normalization %s) as variable / input field: %r is sent as %r / %r" % (
                                     sorted(c["values"]), norm, v[:40], got.get("v%d" % k), (got.get("inp") or {}).get("f%d" % k)),
                                 case_key=key)
    # distinct values map to distinct variants: Debug names of the schema values of one enum are pairwise different
    for tag, (norm, chunk, q, sp) in meta.items():
        for k, c in enumerate(chunk):
            names = {}
            for s in c["values"]:
                o = obs.get("%s|resp|%s" % (tag, s), {})
                m = [x for x in dbgre.finditer(o.get("dbg", "")) if int(x.group(1)) == k]
                if m:
                    names[s] = m[0].group(3)
            if len(set(names.values())) != len(names):
                ck.violation("distinct-%s-%d" % (tag, k), {"enum": sorted(c["values"]), "variants": names},
                             "C10: enum %s (normalization %s): distinct values share a variant: %s" % (sorted(c["values"]), norm, names),
                             case_key="distinct")
    ck.sample({"enum": sorted(cases[0]["values"]), "normalization": cases[0]["normalization"], "expect": cases[0]["expect"]})
    ck.assumptions += ["enum definitions whose values coincide after the chosen normalization (or that hold both `Other` and `Other_`) are outside the property (Enums!Admissible)",
                       "heck's UpperCamelCase on the value pool is a table in the specification"]
    return ck.finish(exhaustive=True, rule="every enum definition of 1..%d values from a 16-name pool x normalization x 25 test strings x {response field, variable, input field}" % (2 if tier == "quick" else 3))


if __name__ == "__main__":
    sys.exit(main("quick"))
