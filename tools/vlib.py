"""Common plumbing for the graphql-client verification checks.

TLC runner, harness (gqlv) runner, violation / known-finding / evidence
bookkeeping, exit-code policy:
  0  property held on everything explored (KNOWN-FINDING lines allowed)
  1  at least one `VIOLATION property=<id> replay=<path>` line
  2  tool error (TLC failure, harness build failure, vacuous model, timeout)
A panic in the code under test is data, never a tool error.
"""
import json, os, re, subprocess, sys, time, hashlib, shutil

VERIF = os.path.dirname(os.path.dirname(os.path.abspath(__file__)))
REPO = os.environ.get("VERIF_REPO", "/repo")
WORK = os.path.join(VERIF, "work")
SPEC = os.path.join(VERIF, "spec")
HARNESS = os.path.join(VERIF, "harness")
GQLV = os.path.join(WORK, "target-harness", "debug", "gqlv")
TLA_JAR = "/opt/veriftools/tla/tla2tools.jar"


class ToolError(Exception):
    pass


def log(*a):
    print(*a, file=sys.stderr, flush=True)


def seed():
    try:
        return int(os.environ.get("VERIF_SEED", "1"))
    except ValueError:
        return 1


def sh(cmd, cwd=None, timeout=None, env=None, input=None, check=False):
    e = dict(os.environ)
    if env:
        e.update(env)
    p = subprocess.run(cmd, cwd=cwd, timeout=timeout, env=e, input=input,
                       stdout=subprocess.PIPE, stderr=subprocess.PIPE, text=True)
    if check and p.returncode != 0:
        raise ToolError("command failed (%d): %s\n%s" % (p.returncode, cmd, p.stderr[-4000:]))
    return p


# --------------------------------------------------------------------------
# harness
# --------------------------------------------------------------------------
_built = False


def build_harness():
    """(Re)build the driver against /repo's current working tree, hooks on."""
    global _built
    if _built:
        return
    t = time.time()
    p = sh(["cargo", "build", "--offline", "-q"], cwd=HARNESS, timeout=1800,
           env={"CARGO_NET_OFFLINE": "true"})
    if p.returncode != 0:
        # A tree that no longer compiles is a tool error, not a verdict.
        raise ToolError("harness build failed:\n" + p.stderr[-6000:])
    _built = True
    log("[harness] built in %.1fs" % (time.time() - t))


def gqlv(cmd, jobs, timeout=900, env=None, extra_args=()):
    """Run `gqlv <cmd>` on a list of job dicts, return (list of result dicts, last process).
    If the process dies while working on a job (stack overflow / abort in the code under test) that
    job gets a synthetic result {"status": "crash"} and the remaining jobs run in a new process:
    a crash of the code under test is data, not a tool error."""
    build_harness()
    out = []
    todo = list(jobs)
    p = None
    while todo:
        inp = "".join(json.dumps(j) + "\n" for j in todo)
        p = sh([GQLV, cmd, *extra_args], input=inp, timeout=timeout, env=env)
        got = []
        for line in p.stdout.splitlines():
            line = line.strip()
            if line:
                try:
                    got.append(json.loads(line))
                except ValueError:
                    break
        out.extend(got)
        if len(got) >= len(todo):
            break
        dead = todo[len(got)]
        out.append({"id": dead.get("id"), "status": "crash", "parse": "crash", "panic": "crash",
                    "msg": "driver process died with status %s while running this job: %s" % (
                        p.returncode, (p.stderr or "")[-300:].strip())})
        todo = todo[len(got) + 1:]
    return out, p


def gqlv_isolated(cmd, job, timeout=20, env=None, cwd=None):
    """One job in a fresh process. Returns dict with exit status / signal / wall / result."""
    build_harness()
    t = time.time()
    try:
        p = sh([GQLV, cmd], input=json.dumps(job) + "\n", timeout=timeout, env=env, cwd=cwd)
    except subprocess.TimeoutExpired:
        return {"timeout": True, "wall": time.time() - t}
    res = None
    for line in p.stdout.splitlines():
        if line.strip():
            try:
                res = json.loads(line)
            except ValueError:
                pass
    return {"timeout": False, "rc": p.returncode, "wall": time.time() - t,
            "result": res, "stderr": p.stderr[-2000:]}


# --------------------------------------------------------------------------
# TLC
# --------------------------------------------------------------------------
_case_re = re.compile(r'^<<"([A-Z]+)", "(.*)">>$')


def parse_tagged(line):
    m = _case_re.match(line)
    if not m:
        return None
    tag, body = m.group(1), m.group(2)
    text = json.loads('"' + body + '"')
    return tag, json.loads(text)


def run_tlc(module, cfg, workers=1, simulate=None, depth=None, sd=None, timeout=1800,
            env=None, heap="4g", dfs=False, coverage=False, extra=()):
    """Run TLC on spec/<module>.tla with spec/<cfg>. Returns dict:
    ok, violated (name of invariant) or None, states, distinct, cases{tag: [..]}, out"""
    meta = os.path.join(WORK, "tlc", "%s-%s-%d" % (module, os.path.splitext(cfg)[0], os.getpid()))
    os.makedirs(meta, exist_ok=True)
    jopts = "-Xss1g -Xmx%s -XX:+UseParallelGC" % heap
    if dfs:
        jopts += " -Dtlc2.tool.queue.IStateQueue=StateDeque"
    cmd = ["java"] + jopts.split() + ["-cp", TLA_JAR + ":" + os.path.join(os.path.dirname(TLA_JAR), "*"),
           "tlc2.TLC"]
    # use the `tlc` wrapper if present: it has the CommunityModules classpath set up
    wrapper = shutil.which("tlc")
    e = dict(env or {})
    if wrapper:
        cmd = [wrapper]
        e["JAVA_TOOL_OPTIONS"] = jopts
    cmd += ["-workers", str(workers), "-noGenerateSpecTE", "-metadir", meta, "-cleanup",
            "-config", os.path.join(SPEC, cfg)]
    if coverage:
        cmd += ["-coverage", "1"]
    if simulate is not None:
        cmd += ["-simulate", "num=%d" % simulate]
        if depth:
            cmd += ["-depth", str(depth)]
        cmd += ["-seed", str(sd if sd is not None else seed())]
    cmd += list(extra)
    cmd += [os.path.join(SPEC, module + ".tla")]
    t = time.time()
    try:
        p = sh(cmd, cwd=SPEC, timeout=timeout, env=e)
    except subprocess.TimeoutExpired:
        shutil.rmtree(meta, ignore_errors=True)
        raise ToolError("TLC timeout on %s/%s" % (module, cfg))
    shutil.rmtree(meta, ignore_errors=True)
    out = p.stdout
    cases = {}
    other = []
    for line in out.splitlines():
        if line.startswith('<<"'):
            r = parse_tagged(line)
            if r:
                cases.setdefault(r[0], []).append(r[1])
                continue
        other.append(line)
    text = "\n".join(other)
    states = distinct = 0
    m = re.findall(r"(\d[\d,]*) states generated, (\d[\d,]*) distinct states found", text)
    if m:
        states = int(m[-1][0].replace(",", ""))
        distinct = int(m[-1][1].replace(",", ""))
    if simulate is not None:
        m2 = re.findall(r"The number of states generated: (\d[\d,]*)", text)
        if m2:
            states = distinct = int(m2[-1].replace(",", ""))
    violated = None
    m = re.search(r"Error: Invariant (\S+) is violated", text)
    if m:
        violated = m.group(1)
    m = re.search(r"Error: Temporal properties were violated", text)
    if m and not violated:
        violated = "temporal"
    m = re.search(r"Error: Action property (\S+)", text)
    if m and not violated:
        violated = m.group(1)
    ok = ("Model checking completed. No error has been found" in text) or \
         (simulate is not None and "Error:" not in text)
    res = {"ok": ok, "violated": violated, "states": states, "distinct": distinct,
           "cases": cases, "out": text, "wall": time.time() - t, "rc": p.returncode,
           "cmd": " ".join(cmd[-8:])}
    log("[tlc] %s/%s: %d states, %d distinct, %s cases, %.1fs, ok=%s" % (
        module, cfg, states, distinct, {k: len(v) for k, v in cases.items()}, res["wall"], ok))
    return res


def tlc_must_pass(res):
    if not res["ok"]:
        raise ToolError("TLC did not complete cleanly (%s):\n%s" % (res.get("violated"), res["out"][-3000:]))


def sany(module):
    p = sh(["tla-sany", os.path.join(SPEC, module + ".tla")], cwd=SPEC, timeout=300)
    return p.returncode == 0 and "error" not in p.stdout.lower().replace("errors: 0", ""), p.stdout


# --------------------------------------------------------------------------
# check bookkeeping
# --------------------------------------------------------------------------
def load_known():
    p = os.path.join(VERIF, "known_findings.json")
    if not os.path.exists(p):
        return []
    return json.load(open(p)).get("findings", [])


CURRENT = None     # the Check object of this run (check.py looks at it when a tool error ends the run)


class Check:
    def __init__(self, prop, tier, level="model_checking"):
        self.prop = prop
        self.tier = tier
        self.level = level
        self.t0 = time.time()
        self.violations = []      # (replay path, summary)
        self.known_hits = {}      # finding id -> count
        self.known = [k for k in load_known() if k.get("property") == prop and k.get("status") == "known"]
        self.cov = {"states": 0, "transitions": 0, "traces_validated_against_impl": 0,
                    "samples": [], "evaluations": 0, "distinct_nontrivial": 0}
        self.assumptions = []
        self.notes = {}
        self._viol_keys = set()
        global CURRENT
        CURRENT = self
        self.replaying = bool(os.environ.get("VERIF_REPLAYING"))
        if not self.replaying:      # a replay run keeps the replay files (it is usually given one of them) ...
            shutil.rmtree(os.path.join(VERIF, "replays", prop), ignore_errors=True)

    # -- coverage
    def add_tlc(self, res):
        self.cov["states"] += res["distinct"]
        self.cov["transitions"] += res["states"]
        self.notes.setdefault("tlc_runs", []).append(
            {"cmd": res["cmd"], "distinct_states": res["distinct"], "states_generated": res["states"],
             "wall_s": round(res["wall"], 1), "cases": {k: len(v) for k, v in res["cases"].items()}})

    def sample(self, obj, limit=4):
        if len(self.cov["samples"]) < limit:
            self.cov["samples"].append(obj)

    def count(self, n=1, nontrivial=None):
        self.cov["evaluations"] += n
        self.cov["traces_validated_against_impl"] += n
        self.cov["distinct_nontrivial"] += (n if nontrivial is None else nontrivial)

    # -- verdicts
    def match_known(self, case_key, signature=""):
        """Return finding dict if (case_key, signature) matches a listed known finding."""
        for k in self.known:
            sel = k.get("selector", {})
            if "case_keys" in sel and case_key in sel["case_keys"]:
                if not sel.get("signature") or re.search(sel["signature"], signature or ""):
                    return k
            if "key_regex" in sel and re.search(sel["key_regex"], case_key or ""):
                if not sel.get("signature") or re.search(sel["signature"], signature or ""):
                    return k
        return None

    def violation(self, name, replay_obj, summary, case_key=None, signature=None):
        """Record a violation unless it is a listed known finding."""
        if case_key is not None:
            k = self.match_known(case_key, signature or summary)
            if k:
                self.known_hits[k["id"]] = self.known_hits.get(k["id"], 0) + 1
                return False
        key = name
        if key in self._viol_keys:
            return True
        self._viol_keys.add(key)
        d = os.path.join(VERIF, "replays", self.prop)
        os.makedirs(d, exist_ok=True)
        safe = re.sub(r"[^A-Za-z0-9_.-]", "_", name)[:80]
        path = os.path.join(d, safe + "-" + stable_hash(name)[:6] + ".json")
        replay_obj = dict(replay_obj)
        replay_obj["property"] = self.prop
        replay_obj["summary"] = summary
        with open(path, "w") as f:
            json.dump(replay_obj, f, indent=1, sort_keys=True)
        self.violations.append((path, summary))
        if len(self.violations) <= 25:
            print("VIOLATION property=%s replay=%s" % (self.prop, path), flush=True)
            log("  -> " + summary[:600])
        return True

    def witnesses(self):
        """known findings of this property that are identified by a committed witness input"""
        out = []
        for k in self.known:
            if k.get("selector", {}).get("witness") and k.get("witness"):
                p = os.path.join(VERIF, k["witness"])
                if os.path.exists(p):
                    out.append((k, json.load(open(p))))
        return out

    def witness_result(self, finding, reproduced, detail=""):
        """A witness that still fails is the listed finding; one that stopped failing is reported so
        that the entry can be retired (it never turns into a violation)."""
        self.notes.setdefault("witnesses", {})[finding["id"]] = "reproduced" if reproduced else "NOT reproduced: " + detail
        if reproduced:
            self.known_hits[finding["id"]] = self.known_hits.get(finding["id"], 0) + 1
        else:
            log("note: witness of known finding %s no longer fails (%s) - the entry can be retired" % (finding["id"], detail))

    def finish(self, exhaustive=None, rule=None, extra=None):
        for k in self.known:
            n = self.known_hits.get(k["id"], 0)
            if n:
                print("KNOWN-FINDING: property=%s %s (%s; %d case(s) this run)" % (
                    self.prop, k["what"], k["id"], n), flush=True)
            elif k.get("selector", {}).get("must_reproduce"):
                log("note: known finding %s was not reproduced in this run" % k["id"])
        cov = dict(self.cov)
        if exhaustive is not None:
            cov["exhaustive"] = bool(exhaustive)
        if rule:
            cov["rule"] = rule
        cov["known_finding_matches"] = dict(self.known_hits)
        if extra:
            cov.update(extra)
        cov.update(self.notes)
        if not cov["samples"]:
            cov["samples"] = ["<none>"]
        ev = {
            "property_id": self.prop, "tier": self.tier, "seed": seed(), "level": self.level,
            "coverage": cov, "assumptions": self.assumptions,
            "wall_s": round(time.time() - self.t0, 2), "violations": len(self.violations),
        }
        os.makedirs(os.path.join(VERIF, "evidence"), exist_ok=True)
        # ... and does not overwrite the evidence of the full run
        evname = self.prop + (".replay.json" if self.replaying else ".json")
        with open(os.path.join(VERIF, "evidence" if not self.replaying else "work", evname), "w") as f:
            json.dump(ev, f, indent=1, sort_keys=True)
        if self.violations:
            log("[%s] %d violation(s)" % (self.prop, len(self.violations)))
            return 1
        log("[%s] ok: %d cases on the implementation, %d model states, %.1fs" % (
            self.prop, cov["traces_validated_against_impl"], cov["states"], time.time() - self.t0))
        return 0


def stable_hash(obj):
    return hashlib.sha1(json.dumps(obj, sort_keys=True).encode()).hexdigest()[:12]


def write_if_changed(path, content):
    try:
        if open(path).read() == content:
            return False
    except OSError:
        pass
    os.makedirs(os.path.dirname(path), exist_ok=True)
    tmp = path + ".tmp%d" % os.getpid()
    with open(tmp, "w") as f:
        f.write(content)
    os.replace(tmp, path)
    return True
