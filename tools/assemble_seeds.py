"""Assemble /verif/seeded/<id>/ from the sub-agents' outputs in /tmp/seedout, run the property's check
against each seeded change (applied to /repo and reverted) and record the outcome in meta.json."""
import json, os, shutil, subprocess, sys
# usage: assemble_seeds.py [--round2] [seed ids...]
ROUND2 = "--round2" in sys.argv
ROUND3 = "--round3" in sys.argv
ROUND4 = "--round4" in sys.argv
ROUND5 = "--round5" in sys.argv
SRC = "/tmp/seedout5" if ROUND5 else "/tmp/seedout4" if ROUND4 else "/tmp/seedout3" if ROUND3 else "/tmp/seedout2" if ROUND2 else "/tmp/seedout"
LETTERS = ("i", "j") if ROUND5 else ("g", "h") if ROUND4 else ("e", "f") if ROUND3 else ("c", "d") if ROUND2 else ("a", "b")
DST = "/verif/seeded"
extra_checks = {"C01a": ["C10"], "C03b": ["C16"], "C06b": ["C07"], "C07a": ["C14"], "C17b": ["C12"],
                "C01c": ["C07"], "C02c": ["C07"], "C02d": ["C12"], "C03d": ["C01"], "C04d": ["C13"], "C09d": ["C18"], "C10d": ["C07"],
                "C01f": ["C03"], "C03f": ["C01"], "C09f": ["C18"], "C18e": ["C09"], "C12e": ["C04"], "C04e": ["C13"], "C13f": ["C04", "C07"],
                "C10f": ["C07"], "C07f": ["C01"], "C06f": ["C07"], "C14f": ["C07"],
                "C01g": ["C03"], "C03g": ["C18"], "C04h": ["C18"], "C09h": ["C05"], "C13h": ["C07"], "C02h": ["C19"], "C17g": ["C08"], "C12h": ["C04"],
                "C04g": ["C12"], "C01h": ["C03"], "C07g": ["C06"], "C02g": ["C18"],
                "C01j": ["C07"], "C03i": ["C09"], "C03j": ["C07"], "C04j": ["C11"], "C06j": ["C07"], "C11i": ["C04"], "C13i": ["C07"],
                "C13j": ["C07"], "C02i": ["C09"], "C02j": ["C07"], "C09i": ["C16"], "C09j": ["C03"], "C14j": ["C07"], "C17j": ["C12"]}
# seeds whose own property's check does not observe the mechanism; the named check is the one that decides
decided_by = {"C09d": "C18", "C02d": "C12", "C09f": "C18", "C18e": "C09",
              "C11i": "C04", "C01g": "C03", "C03g": "C18", "C04h": "C18", "C09h": "C05", "C13h": "C07", "C02g": "C18", "C02h": "C19"}
only = [a for a in sys.argv[1:] if not a.startswith("--")]
for prop in sorted(os.listdir(SRC)):
    if not prop.startswith("C") or not os.path.isdir(os.path.join(SRC, prop)):
        continue
    if only and not any(o.startswith(prop) for o in only):
        continue
    ver = json.load(open(os.path.join(SRC, prop, "VERIFY.json")))
    for x in LETTERS:
        sid = prop + x
        if only and sid not in only:
            continue
        src = os.path.join(SRC, prop, x)
        dst = os.path.join(DST, sid)
        shutil.rmtree(dst, ignore_errors=True)
        os.makedirs(dst)
        rebased = os.path.exists(os.path.join(src, "patch_rebased.diff"))
        shutil.copy(os.path.join(src, "patch_rebased.diff" if rebased else "patch.diff"), os.path.join(dst, "patch.diff"))
        if rebased:
            shutil.copy(os.path.join(src, "patch.diff"), os.path.join(dst, "patch_as_written_for_pinned_commit.diff"))
        demo = os.path.join(dst, "demo")
        os.makedirs(demo)
        for f in os.listdir(src):
            if f in ("patch.diff", "patch_rebased.diff", "meta.json") or f.endswith(".log") or f.endswith(".txt"):
                continue
            p = os.path.join(src, f)
            (shutil.copytree if os.path.isdir(p) else shutil.copy)(p, os.path.join(demo, f))
        m = json.load(open(os.path.join(src, "meta.json")))
        results = {}
        for chk in [prop] + extra_checks.get(sid, []):
            subprocess.run(["git", "-C", "/repo", "apply", os.path.join(dst, "patch.diff")], check=True)
            try:
                p = subprocess.run(["./check", chk, "--tier", "quick"], cwd="/verif", stdout=subprocess.PIPE, stderr=subprocess.PIPE, text=True, timeout=1800)
            finally:
                subprocess.run(["git", "-C", "/repo", "checkout", "--", "."], check=True)
            viol = [l for l in p.stdout.splitlines() if l.startswith("VIOLATION")]
            first = next((l.strip() for l in p.stderr.splitlines() if l.strip().startswith("->")), "")
            results[chk] = {"exit": p.returncode, "violation_lines": len(viol), "first_report": first[:400]}
            print(sid, chk, p.returncode, len(viol), first[:120], flush=True)
        v = ver[x]
        meta = {
            "id": sid, "property": prop,
            "written_by": "independent sub-agent given only the property text and a scratch worktree",
            "files_changed": m.get("files_changed"),
            "what_it_breaks": m.get("what_it_breaks"),
            "needs_to_manifest": m.get("needs_to_manifest"),
            "demonstration": {"how_to_run": m.get("how_to_run_demo"), "files": sorted(os.listdir(demo)),
                              "note": "paths in how_to_run refer to the scratch worktree the change was written in (/tmp/wt/%s)" % prop},
            "patch": "patch.diff applies to /repo as committed (" + ("rebased by hand onto later `fix:` commits; the change is the same" if rebased else "as written by the sub-agent") + ")",
            "confirmed": {"in": "scratch worktree of /repo HEAD under /tmp/wt/%s (removed afterwards)" % prop,
                          "patch_applies": v.get("applies"), "existing_suite_with_patch": "%s passed, %s failed" % (v.get("suite_passed"), v.get("suite_failed")),
                          "demo_without_patch": v.get("demo_without_patch"), "demo_with_patch": v.get("demo_with_patch"), "notes": v.get("notes")},
            "checks_run_against_it": results,
            "caught": all(r["exit"] == 1 and r["violation_lines"] > 0 for k, r in results.items() if k == decided_by.get(sid, prop)),
            "caught_by": sorted(k for k, r in results.items() if r["exit"] == 1 and r["violation_lines"] > 0),
        }
        json.dump(meta, open(os.path.join(dst, "meta.json"), "w"), indent=1)
