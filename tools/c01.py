"""C01 - every spec-conforming response deserialises losslessly into ResponseData.
C03 - generated response types reject what the schema forbids.

Both are decided from the same TLC run (MC_C01: program generator + execution
shape oracle Exec.tla) and the same compiled consumer crates; C01 looks at the
conforming vectors, C03 at the single-point corruptions.
"""
import json, os, sys
import copy
import vlib, prog, payload, progcheck, render
from consumer import Consumers
from vlib import Check, ToolError

BASE_OPTS = {"mode": "cli", "module_visibility": "pub", "response_derives": "Debug, PartialEq, Serialize", "deprecation": "allow"}


def run(ck, prop, sj, progs, tier):
    workdir = os.path.join(vlib.WORK, "c01")
    schema_path = progcheck.schema_file(sj, workdir, fold_extensions=False)
    variants = [("off", dict(BASE_OPTS))]
    if prop == "C03":
        variants.append(("on", dict(BASE_OPTS, fragments_other_variant=True)))
    # renamed copies (type names that are not UpperCamelCase) run under normalization = rust against the renamed schema
    rn_path = os.path.join(workdir, "universe_renamed.graphql")
    vlib.write_if_changed(rn_path, render.sdl(prog.rename_types(prog.schema_from_tla(sj, "full"), prog.TYPE_RENAMES), fold_extensions=False))
    gens = {}
    for flag, sp, vs in ((False, schema_path, variants),
                         (True, rn_path, [(t, dict(o, normalization="rust")) for t, o in variants])):
        idx = [i for i, p in enumerate(progs) if bool(p.get("renamed")) == flag]
        g = progcheck.gen_programs([progs[i] for i in idx], sp, vs)
        for (j, tag), r in g.items():
            gens[(idx[j], tag)] = r
    cons = Consumers("c01", nbins=14, reader_route=True)   # C01 and C03 share the compiled crates
    case_of = {}
    gen_fail = refused = accepted_ext = 0
    for (i, tag), r in gens.items():
        if r["status"] != "ok":
            if progs[i].get("maybe_refused"):
                refused += 1          # valid GraphQL outside what the generator promises: refusing is allowed
            else:
                gen_fail += 1
            continue
        if progs[i].get("maybe_refused"):
            accepted_ext += 1
        cid = "p%s_%s" % (progs[i]["hash"], tag)
        cons.add_case(cid, progcheck.PRELUDE + r["tokens"], "MyOp", kinds=("resp",))
        case_of[(i, tag)] = cid
    ck.notes["programs"] = len(progs)
    ck.notes["generation_failed"] = gen_fail
    ck.notes["extended_class"] = {"refused_by_the_generator": refused, "accepted_and_run_like_any_program": accepted_ext}
    wit = {}
    if prop == "C01":
        for finding, w in ck.witnesses():
            sp = os.path.join(workdir, "witness_%s.graphql" % finding["id"])
            vlib.write_if_changed(sp, w["schema_sdl"])
            rs, _ = vlib.gqlv("gen", [{"id": finding["id"], "schema_path": sp, "query": w["query"], "options": dict(BASE_OPTS), "want_tokens": True}])
            if rs[0]["status"] == "ok":
                cid = "w_%s" % finding["id"].lower()
                cons.add_case(cid, progcheck.PRELUDE + rs[0]["tokens"], "MyOp", kinds=("resp",))
                wit[cid] = (finding, w)
            else:
                ck.witness_result(finding, False, "generation now fails: %s" % rs[0].get("msg"))
    errs = cons.build()
    ck.notes["compile_failed_cases"] = len(errs)
    if errs:
        ck.notes["compile_failed_examples"] = [{"case": c, "errors": e[:2]} for c, e in list(errs.items())[:3]]
    jobs, meta = [], {}
    for (i, tag), cid in case_of.items():
        if cid in errs:
            continue
        for vi, v in enumerate(progs[i]["vectors"]):
            if prop == "C01" and v["class"] != "conform":
                continue
            if prop == "C03" and v["class"] != "corrupt":
                continue
            jid = "%d|%s|%d" % (i, tag, vi)
            pl = payload.decode(v["payload"])
            jobs.append({"id": jid, "case": cid, "kind": "resp", "input": pl})
            meta[jid] = (i, tag, vi, pl)
            if prop == "C01" and vi % 5 == 0:
                # the same payload as JSON text, through a reader, and as a fully \\u-escaped text
                for sfx, kind, text in (("s", "resp_str", json.dumps(pl)), ("r", "resp_reader", json.dumps(pl)),
                                        ("e", "resp_str", payload.escaped_text(pl))):
                    if sfx != "s" and (vi // 5 + len(sfx) + ord(sfx)) % 2:
                        continue
                    jid2 = jid + "|" + sfx
                    jobs.append({"id": jid2, "case": cid, "kind": kind, "input": text})
                    meta[jid2] = (i, tag, vi, pl)
    for cid, (finding, w) in wit.items():
        jobs.append({"id": "witness|" + cid, "case": cid, "kind": "resp", "input": w["payload"]})
    obs = cons.run(jobs)
    for cid, (finding, w) in wit.items():
        o = obs.get("witness|" + cid) or {}
        lossless = "ok" in o and payload.match(w["payload"], o["ok"]) is None and payload.match(o["ok"], w["payload"]) is None
        ck.witness_result(finding, (cid in errs) or not lossless, "payload now round-trips: %s" % json.dumps(o)[:200])
    feats = {}
    for jid, (i, tag, vi, pl) in meta.items():
        r = obs.get(jid)
        p = progs[i]
        v = p["vectors"][vi]
        for f in progcheck.classify(p):
            feats[f] = feats.get(f, 0) + 1
        feats[v["alt"]["a"]] = feats.get(v["alt"]["a"], 0) + 1
        ck.count()
        rep = {"query": p["text"], "doc": p["doc"], "vector": {"path": v["path"], "alt": v["alt"]["a"],
               "param": v["alt"]["x"], "class": v["class"], "verdict": v["verdict"], "after_type_flip": v.get("ctx", "")},
               "payload": pl, "other_variant": tag, "observed": r, "prog": {"doc": p["doc"], "vectors": [v], "renamed": bool(p.get("renamed"))},
               "normalization": "rust" if p.get("renamed") else "none"}
        name = "%s-%s-%s%s-%s" % (p["hash"], tag, v.get("ctx", "").replace("/", "."), v["path"].replace("/", "."), v["alt"]["a"] + v["alt"]["x"] + v["alt"]["val"]["t"] + v["alt"]["val"]["s"][:8])
        if r is None or "skipped" in r:
            continue
        if len(ck.cov["samples"]) < 3 and v["path"]:
            ck.sample({"query": p["text"], "path": v["path"], "alternative": v["alt"]["a"], "payload": pl,
                       "expected_verdict": v["verdict"], "observed": r})
        key = "%s|%s" % (v["alt"]["a"], v["verdict"])
        if prop == "C01":
            exp = payload.decode(v["expect"], pattern=True)
            rep["expected"] = payload.to_jsonable(exp)
            if "ok" not in r:
                ck.violation(name, rep, "C01: conforming payload rejected (%s) at %s [%s %s]\n%s\npayload: %s" % (
                    r, v["path"], v["alt"]["a"], v["alt"]["x"], p["text"], json.dumps(pl)[:400]), case_key=key,
                    signature=json.dumps(r))
                continue
            m = payload.match(exp, r["ok"])
            if m:
                ck.violation(name, rep, "C01: re-serialised value differs: %s\n%s\npayload: %s\nobserved: %s" % (
                    m, p["text"], json.dumps(pl)[:400], json.dumps(r["ok"])[:400]), case_key=key, signature=m)
        else:
            verdict = v["verdict"]
            ok = "ok" in r
            if verdict == "reject":
                bad = ok
                why = "corrupted payload accepted"
            elif verdict == "unknown":
                if tag == "off":
                    bad, why = ok, "unknown __typename accepted without the other-variant option"
                else:
                    if not ok:
                        bad, why = True, "unknown __typename rejected although fragments_other_variant is on (%s)" % r
                    else:
                        found, val = payload.at_path(r["ok"], v["path"])
                        tn = val.get("__typename") if isinstance(val, dict) else None
                        bad = tn != "Unknown"
                        why = "unknown __typename did not yield the Unknown variant (re-serialised tag %r)" % (tn,)
            else:  # swap: a known __typename always selects its own variant
                if not ok:
                    bad, why = False, ""
                else:
                    found, val = payload.at_path(r["ok"], v["path"])
                    tn = val.get("__typename") if isinstance(val, dict) else None
                    bad = tn != v["alt"]["x"]
                    why = "payload tagged %s deserialised as variant %r" % (v["alt"]["x"], tn)
            if bad:
                ck.violation(name, rep, "C03 (other-variant %s): %s at %s [%s %s %s]\n%s\npayload: %s\nobserved: %s" % (
                    tag, why, v["path"], v["alt"]["a"], v["alt"]["x"], v["alt"]["val"]["t"], p["text"],
                    json.dumps(pl)[:400], json.dumps(r)[:300]), case_key=key, signature=why)
    ck.notes["feature_counts"] = feats
    return feats


def main_prop(prop, tier, replay=None, selftest=False):
    ck = Check(prop, tier)
    vlib.build_harness()
    if replay:
        rep = json.load(open(replay))
        sj = json.load(open(os.path.join(vlib.WORK, "c01", "schema.json")))
        p = rep["prog"]
        p["hash"] = vlib.stable_hash(p["doc"])
        run(ck, prop, sj, [p], tier)
        return ck.finish(exhaustive=False, rule="replay")
    nsim, limit = (3000, 260) if tier == "quick" else (40000, 3000)
    sj, progs = progcheck.tlc_program_sample(ck, nsim, limit, ext=(100 if tier == "quick" else 600), extra_docs=PINNED_DOCS)
    os.makedirs(os.path.join(vlib.WORK, "c01"), exist_ok=True)
    json.dump(sj, open(os.path.join(vlib.WORK, "c01", "schema.json"), "w"))
    if len(progs) < 40:
        raise ToolError("vacuous: %d programs" % len(progs))
    extra = []
    for i, p in enumerate(progs):
        if i % 3 == 0 and any(x in json.dumps(p["doc"]) for x in prog.TYPE_RENAMES):
            q = prog.rename_program(copy.deepcopy(p))
            q["renamed"] = True
            q["hash"] = p["hash"] + "r"
            extra.append(q)
    # three programs in four: fragment names whose snake_case form is a Rust keyword (`Type`, `Match`, `Async`) - the
    # names of the flattened members that hold the fragments (pure renaming; defect D32)
    nfr = 0
    for i, p in enumerate(progs):
        merges = any(f[0] == "variant-merge" for f in progcheck.doc_features(sj, p["doc"]))   # always: the members built at the variant sites
        if (merges or i % 4 != 0) and any(d["k"] == "frag" for d in p["doc"]["defs"]):
            prog.rename_program(p, mapping={})
            nfr += 1
    ck.notes["programs_with_keyword_fragment_names"] = nfr
    progs = progs + extra
    ck.notes["renamed_programs_under_rust_normalization"] = len(extra)
    if selftest:
        v = progs[0]["vectors"][0]
        if prop == "C01":
            v["expect"] = {"t": "obj", "s": "", "o": [{"k": "selftest", "v": {"t": "int", "s": "1", "o": [], "l": []}}], "l": []}
        else:
            progs[0]["vectors"].append(dict(v, **{"class": "corrupt", "verdict": "reject"}))
    feats = run(ck, prop, sj, progs, tier)
    need = ["inline", "spread", "alias", "query", "mutation", "subscription"]
    need += ["null", "type", "len", "scalar"] if prop == "C01" else ["c_null", "c_delete", "c_kind", "c_tn_unknown", "c_tn_swap"]
    missing = [f for f in need if not feats.get(f)]
    if missing:
        raise ToolError("vacuous: feature classes never exercised: %s" % missing)
    ck.assumptions += [
        "programs are drawn from the universe schema family (Gql.tla) within ProgGen's bounds; supported subset of DESIGN section 8",
        "payload variation: baseline + every single-position alternative (Hamming distance 1) while fuel >= FlipFuel",
        "observation is serde_json::from_value / to_value inside compiled consumer crates (rustc + serde as installed)",
    ]
    return ck.finish(exhaustive=False,
                     rule="programs from seeded TLC simulation of ProgGen, covering sample over grammar productions "
                          "(scope type x field / type condition / spread target, nesting kinds) plus seeded fill; per program every single-position "
                          "alternative of the execution-shape oracle; distinct = distinct (program, vector) pairs")


def _n(d, p, k, name="", alias="", on=""):
    return {"d": d, "p": p, "k": k, "name": name, "alias": alias, "on": on}


# documents that are always part of the sample (shapes the random sample reaches only by chance):
# a variant that is built from a spread of a member-type fragment written directly in the abstract selection set
# PLUS an inline fragment on that member, and from a lone-spread inline fragment PLUS another inline fragment
# (the two sites of codegen/selection.rs that name a flattened member after a fragment inside a variant: D32)
PINNED_DOCS = [
    {"defs": [{"k": "op", "name": "MyOp", "kind": "query", "on": ""},
              {"k": "frag", "name": "FragA", "kind": "", "on": "Robot"},
              {"k": "frag", "name": "FragB", "kind": "", "on": "Cat"}],
     "nodes": [_n(1, 0, "field", "pet"), _n(1, 1, "typename", "__typename"), _n(1, 1, "spread", "FragA"),
               _n(1, 1, "inline", on="Robot"), _n(1, 4, "field", "model"),
               _n(1, 1, "inline", on="Cat"), _n(1, 6, "spread", "FragB"),
               _n(1, 1, "inline", on="Cat"), _n(1, 8, "field", "lives"),
               _n(2, 0, "field", "serial"), _n(3, 0, "field", "name")]},
]


def main(tier, replay=None, selftest=False):
    return main_prop("C01", tier, replay, selftest)


if __name__ == "__main__":
    sys.exit(main("quick"))
