"""C02 - supported inputs are accepted and the generated code always type-checks.

MC_C02 (Options.tla) enumerates option sets x delivery form {library, derive,
cli} x consumer {with serde, graphql_client only}; programs come from ProgGen
(supported subset), each turned into a two-operation document with shared
fragments and variables of enum / custom scalar / input / @oneOf types.  The
driver produces the code by the three real routes (library call, real
#[derive(GraphQLQuery)] on real files, file written by the built CLI) and runs
`cargo check` on consumer crates; every rustc error is attributed to a case by
its file.
"""
import json, os, random, re, shutil, subprocess, sys
import vlib, render, prog, progcheck
import c19
from vlib import Check, ToolError

PROP = "C02"

VARS = [{"name": "c", "type": {"q": [], "base": "Color"}}, {"name": "when", "type": {"q": [], "base": "Date"}},
        {"name": "f", "type": {"q": [], "base": "Filter"}}, {"name": "by", "type": {"q": ["L", "R"], "base": "By"}},
        {"name": "ids", "type": {"q": ["R", "L", "R"], "base": "ID"}}]

EXTERN_COLOR = '''
#[derive(Debug, Clone, PartialEq, serde::Serialize, serde::Deserialize)]
pub enum Color { RED, GREEN, #[serde(rename = "blue")] Blue, #[serde(other)] Unknown }
'''

LIB_RS = '''#![allow(warnings)]
pub mod scalars { pub type Date = String; }
%s
'''


def two_ops(doc):
    """add a second operation that reuses the fragments: same selection, other name"""
    d = json.loads(json.dumps(doc))
    opi = next(i for i, x in enumerate(d["defs"], start=1) if x["k"] == "op")
    d["defs"].append(dict(d["defs"][opi - 1], name="OtherOp"))
    new_d = len(d["defs"])
    old_nodes = [(i, n) for i, n in enumerate(d["nodes"], start=1) if n["d"] == opi]
    remap = {}
    for i, n in old_nodes:
        remap[i] = len(d["nodes"]) + 1
        d["nodes"].append(dict(n, d=new_d, p=0 if n["p"] == 0 else remap[n["p"]]))
    return d, opi, new_d


def cover(confs, rng, n):
    def feats(c):
        items = [("o:" + k, v) for k, v in c["options"].items()] + [("dep", c["deprecation"]), ("other", c["otherVariant"]), ("skip", c["skipNone"])]
        return {(a, b) for i, a in enumerate(items) for b in items[i + 1:]}
    fs = [feats(c) for c in confs]
    unc = set().union(*fs)
    chosen, idx = [], set(range(len(confs)))
    while unc and len(chosen) < n:
        b = max(idx, key=lambda i: len(fs[i] & unc))
        if not fs[b] & unc:
            break
        chosen.append(confs[b])
        unc -= fs[b]
        idx.discard(b)
    if len(chosen) < n:
        chosen += [confs[i] for i in rng.sample(sorted(idx), min(n - len(chosen), len(idx)))]
    return chosen


def lib_opts(conf, opname=None):
    o = conf["options"]
    d = {"mode": "cli", "normalization": o["normalization"], "response_derives": o["response_derives"],
         "variables_derives": o["variables_derives"], "module_visibility": o["module_visibility"],
         "fragments_other_variant": conf["otherVariant"], "skip_serializing_none": conf["skipNone"]}
    if conf["deprecation"]:
        d["deprecation"] = conf["deprecation"]
    if o["custom_scalars_module"]:
        d["custom_scalars_module"] = o["custom_scalars_module"]
    if o["extern_enums"]:
        d["extern_enums"] = [o["extern_enums"]]
    if o["serde_path"]:
        d["serde_path"] = o["serde_path"]
    return d


def derive_attr(conf, schema_rel, query_rel):
    o = conf["options"]
    parts = ['schema_path = "%s"' % schema_rel, 'query_path = "%s"' % query_rel,
             'response_derives = "%s"' % o["response_derives"],
             'normalization = "%s"' % o["normalization"]]
    # (the derive always adds Deserialize / Serialize itself; extra derives must not repeat them)
    parts.append('variables_derives = "%s"' % o["variables_derives"])
    if conf["deprecation"]:
        parts.append('deprecated = "%s"' % conf["deprecation"])
    if conf["otherVariant"]:
        parts.append('fragments_other_variant = "true"')
    if o["custom_scalars_module"]:
        parts.append('custom_scalars_module = "%s"' % o["custom_scalars_module"])
    if o["extern_enums"]:
        parts.append('extern_enums("%s")' % o["extern_enums"])
    if conf["skipNone"]:
        parts.append("skip_serializing_none")
    return "#[graphql(%s)]" % ", ".join(parts)


class CheckCrate:
    """a library crate of case modules, `cargo check`ed; errors attributed by file"""

    def __init__(self, name, serde):
        self.name = name
        self.root = os.path.join(vlib.WORK, "consumers", "c02ws", name)
        self.serde = serde
        self.cases = {}

    def add(self, cid, source, path_attr=None):
        self.cases[cid] = (source, path_attr)

    def write(self):
        src = os.path.join(self.root, "src")
        os.makedirs(src, exist_ok=True)
        mods = []
        keep = {"lib.rs"}
        for cid, (source, path_attr) in sorted(self.cases.items()):
            if path_attr:
                mods.append('#[path = "%s"] pub mod %s;' % (path_attr, cid))
            else:
                vlib.write_if_changed(os.path.join(src, cid + ".rs"), source + "\n")
                keep.add(cid + ".rs")
                mods.append("pub mod %s;" % cid)
        for f in os.listdir(src):
            if f not in keep and f.endswith(".rs"):
                os.remove(os.path.join(src, f))
        vlib.write_if_changed(os.path.join(src, "lib.rs"), LIB_RS % "\n".join(mods))
        deps = 'graphql_client = { path = "/repo/graphql_client" }\n'
        if self.serde:
            deps += 'serde = { version = "1", features = ["derive"] }\nserde_json = "1"\n'
        vlib.write_if_changed(os.path.join(self.root, "Cargo.toml"),
                              '[package]\nname = "%s"\nversion = "0.0.0"\nedition = "2018"\npublish = false\n\n'
                              '[dependencies]\n%s' % (self.name, deps))

    def attribute(self, stdout):
        errs, other = {}, []
        p = None
        for line in stdout.splitlines():
            try:
                m = json.loads(line)
            except ValueError:
                continue
            if m.get("reason") != "compiler-message" or m["message"].get("level") != "error":
                continue
            if self.name not in (m.get("package_id") or "") and self.name not in json.dumps(m.get("target", {})):
                continue
            msg = m["message"]
            cid = None
            stack = list(msg.get("spans", []))
            while stack and not cid:
                sp = stack.pop()
                fn = sp.get("file_name", "")
                for c, (source, path_attr) in self.cases.items():
                    if fn.endswith("/" + c + ".rs") or (path_attr and os.path.abspath(os.path.join(self.root, "src", fn)) == path_attr) or fn == path_attr:
                        cid = c
                        break
                ex = sp.get("expansion")
                if ex:
                    stack.append(ex["span"])
            text = ((msg.get("code") or {}).get("code") or "") + " " + msg.get("message", "")
            if "aborting due to" in text or "could not compile" in text:
                continue
            if cid:
                errs.setdefault(cid, []).append(text.strip())
            else:
                other.append(text.strip() + " :: " + (msg.get("rendered") or "")[:300])
        return errs, other


def main(tier, replay=None, selftest=False):
    ck = Check(PROP, tier)
    vlib.build_harness()
    c19.build_cli()
    rng = random.Random(vlib.seed())
    res = vlib.run_tlc("MC_C02", "MC_C02.cfg", workers=4, timeout=900)
    ck.add_tlc(res)
    vlib.tlc_must_pass(res)
    confs = res["cases"]["CONF"]
    nprog = 60 if tier == "quick" else 600
    resp = vlib.run_tlc("MC_Progs", "MC_Progs_sim.cfg", simulate=(2000 if tier == "quick" else 20000), depth=80, timeout=2400)
    ck.add_tlc(resp)
    vlib.tlc_must_pass(resp)
    sj = resp["cases"]["SCHEMA"][0]
    # ... and with three named fragments (fragments that share a third one)
    resp3 = vlib.run_tlc("MC_Progs", "MC_Progs_sim3.cfg", simulate=(1500 if tier == "quick" else 15000), depth=90, timeout=2400)
    ck.add_tlc(resp3)
    vlib.tlc_must_pass(resp3)
    docs = list({vlib.stable_hash(d): d for d in resp["cases"]["DOC"] + resp3["cases"].get("DOC", [])}.values())
    docs, stats = progcheck.covering_sample(sj, docs, nprog, rng)
    ck.notes["sampling"] = stats
    # always in the sample: the shapes of c01.PINNED_DOCS; two documents in three: fragment names whose snake_case form
    # is a Rust keyword (the names of the flattened members that hold them - D32)
    import c01 as _c01, copy as _copy
    docs = [_copy.deepcopy(d) for d in _c01.PINNED_DOCS] + docs
    for i, d in enumerate(docs):
        if i % 3 != 2:
            prog.rename_program({"doc": d, "vectors": []}, mapping={})
    # schema: universe + inputs
    sch = prog.schema_from_tla(sj, "full")
    tr = lambda b, q=(): {"q": list(q), "base": b}
    sch["types"] += [
        {"kind": "INPUT_OBJECT", "name": "Filter", "oneOf": False, "inputFields": [
            {"name": "color", "type": tr("Color")}, {"name": "when", "type": tr("Date")}, {"name": "type", "type": tr("Int", ["R"])},
            {"name": "not", "type": tr("Filter")}, {"name": "and", "type": tr("Filter", ["L", "R"])}, {"name": "by", "type": tr("By")}]},
        {"kind": "INPUT_OBJECT", "name": "By", "oneOf": True, "inputFields": [
            {"name": "id", "type": tr("ID")}, {"name": "filter", "type": tr("Filter")}, {"name": "color", "type": tr("Color")}]}]
    base = os.path.join(vlib.WORK, "c02")
    shutil.rmtree(base, ignore_errors=True)
    os.makedirs(os.path.join(base, "files"))
    spaths = {"sdl": os.path.join(base, "files", "schema.graphql"), "json": os.path.join(base, "files", "schema.json")}
    open(spaths["sdl"], "w").write(render.sdl(sch, fold_extensions=False, declare_builtins=True))
    open(spaths["json"], "w").write(render.introspection_json(sch))
    classes = {}
    for c in confs:
        classes.setdefault((c["form"], c["consumer"]), []).append(c)
    per_class = {k: cover(v, rng, max(12, len(docs) // 2)) for k, v in classes.items()}
    crates = {k: CheckCrate("c02_%s_%s" % k, serde=(k[1] == "serde")) for k in classes}
    genjobs, meta = [], {}
    cases = {}
    for pi, d in enumerate(docs):
        d2, op1, op2 = two_ops(d)
        text = prog.doc_text(d2, {op1: VARS, op2: VARS})
        qpath = os.path.join(base, "files", "q_%d.graphql" % pi)
        open(qpath, "w").write(text)
        for (form, consumer), cs in per_class.items():
            conf = cs[pi % len(cs)]
            fmt = "json" if pi % 3 == 0 else "sdl"
            cid = "p%d_%s_%s" % (pi, form, consumer)
            pre = ""
            o = conf["options"]
            if not o["custom_scalars_module"] and form != "cli":
                pre += "pub type Date = String;\n"
            if o["extern_enums"]:
                pre += EXTERN_COLOR
            cases[cid] = {"program": pi, "form": form, "consumer": consumer, "conf": conf, "query": text, "schema_format": fmt}
            if form == "library":
                genjobs.append({"id": cid, "schema_path": spaths[fmt], "query_path": qpath, "options": lib_opts(conf), "want_tokens": True})
                meta[cid] = pre
            elif form == "derive":
                attr = derive_attr(conf, spaths[fmt], qpath)
                vis = "pub" if o["module_visibility"] == "pub" else "pub(crate)"
                src = "#![allow(warnings)]\nuse graphql_client::GraphQLQuery;\n" + pre
                for nm in ("MyOp", "OtherOp"):
                    src += "#[derive(GraphQLQuery)]\n%s\n%s struct %s;\n" % (attr, vis, nm)
                # absolute paths: the attribute is joined to CARGO_MANIFEST_DIR by the macro; an absolute
                # second component replaces it for schema_path (Path::join) but not for query_path (format!),
                # so give both relative to the crate
                crate_root = crates[(form, consumer)].root
                src = src.replace(spaths[fmt], os.path.relpath(spaths[fmt], crate_root)).replace(qpath, os.path.relpath(qpath, crate_root))
                crates[(form, consumer)].add(cid, src)
            else:  # cli
                outdir = os.path.join(base, "cli_out", cid)
                os.makedirs(outdir, exist_ok=True)
                c19case = {"flags": {"variables_derives": ",".join(x.strip() for x in o["variables_derives"].split(",") if x.strip() not in ("Deserialize",)),
                                     "response_derives": o["response_derives"], "deprecation": conf["deprecation"],
                                     "module_visibility": {"pub": "pub", "pub(crate)": "crate"}[o["module_visibility"]],
                                     "custom_scalars_module": "crate::scalars", "fragments_other_variant": conf["otherVariant"],
                                     "external_enums": "", "selected_operation": ""},
                           "formatting": pi % 2 == 0, "placement": "outdir", "qname": "x"}
                a = [c19.CLI, "generate", qpath, "--schema-path", spaths[fmt], "-o", outdir]
                f = c19case["flags"]
                if f["variables_derives"]:
                    a += ["-I", f["variables_derives"]]
                a += ["-O", f["response_derives"], "-m", f["module_visibility"], "-p", "crate::scalars"]
                if f["deprecation"]:
                    a += ["-d", f["deprecation"]]
                if f["fragments_other_variant"]:
                    a += ["--fragments-other-variant"]
                if not c19case["formatting"]:
                    a += ["--no-formatting"]
                p = subprocess.run(a, stdout=subprocess.PIPE, stderr=subprocess.PIPE, text=True, timeout=120, env=dict(os.environ, RUST_LOG="off"))
                out = os.path.join(outdir, "q_%d.rs" % pi)
                cases[cid]["cli_exit"] = p.returncode
                cases[cid]["cli_stderr"] = p.stderr[-400:]
                if p.returncode == 0 and os.path.exists(out):
                    crates[(form, consumer)].add(cid, None, path_attr=out)
                else:
                    cases[cid]["gen_failed"] = "CLI exit %s: %s" % (p.returncode, p.stderr[-300:])
    results, _ = vlib.gqlv("gen", genjobs)
    for r in results:
        cid = r["id"]
        c = cases[cid]
        if r["status"] != "ok":
            c["gen_failed"] = "%s: %s" % (r["status"], (r.get("msg") or "")[:300])
        else:
            crates[(c["form"], c["consumer"])].add(cid, "#![allow(warnings)]\n" + meta[cid] + r["tokens"])
    # witnesses of the known findings of this property: compiled in a crate of their own
    wcrate = CheckCrate("c02_witness", serde=True)
    wit = {}
    for finding, w in ck.witnesses():
        sp = os.path.join(base, "files", "witness_%s.graphql" % finding["id"])
        open(sp, "w").write(w["schema_sdl"])
        rs, _ = vlib.gqlv("gen", [{"id": finding["id"], "schema_path": sp, "query": w["query"],
                                   "options": {"mode": "cli", "module_visibility": "pub"}, "want_tokens": True}])
        if rs[0]["status"] == "ok":
            cid = "w_%s" % finding["id"].lower()
            wcrate.add(cid, "#![allow(warnings)]\n" + rs[0]["tokens"])
            wit[cid] = finding
        else:
            ck.witness_result(finding, True, "")     # refusing the input is not the repair that was asked for, but it is an error
    crates[("witness", "serde")] = wcrate
    errors = {}
    wsroot = os.path.join(vlib.WORK, "consumers")
    for cr in crates.values():
        cr.write()
    members = sorted(cr.name for cr in crates.values())
    ws = os.path.join(vlib.WORK, "consumers", "c02ws")
    os.makedirs(ws, exist_ok=True)
    vlib.write_if_changed(os.path.join(ws, "Cargo.toml"), '[workspace]\nresolver = "2"\nmembers = [%s]\n\n[profile.dev]\ndebug = 0\nincremental = false\n' % ", ".join('"%s"' % m for m in members))
    if not os.path.exists(os.path.join(ws, "Cargo.lock")):
        shutil.copy(os.path.join(vlib.REPO, "Cargo.lock"), os.path.join(ws, "Cargo.lock"))
    p = vlib.sh(["cargo", "check", "--offline", "--message-format=json", "--keep-going", "--workspace"], cwd=ws, timeout=3000,
                env={"CARGO_NET_OFFLINE": "true", "CARGO_TARGET_DIR": os.path.join(vlib.WORK, "target-c02")})
    allother = []
    for cr in crates.values():
        e, other = cr.attribute(p.stdout)
        errors.update(e)
        allother += other
    if p.returncode != 0 and not errors:
        raise ToolError("cargo check of the C02 consumer crates failed without attributable diagnostics:\n%s\n%s" % ("\n".join(allother[:4]), p.stderr[-2000:]))
    for cid, finding in wit.items():
        ck.witness_result(finding, cid in errors, "the witness now type-checks")
    if selftest:
        errors[next(iter(cases))] = ["E0000 selftest"]
    bykind = {}
    for cid, c in cases.items():
        ck.count()
        kind = "%s/%s" % (c["form"], c["consumer"])
        bykind[kind] = bykind.get(kind, 0) + 1
        conf = c["conf"]
        feat = "ok"
        if len(ck.cov["samples"]) < 3:
            ck.sample({"form": c["form"], "consumer": c["consumer"], "options": conf, "query": c["query"][:300]})
        if c.get("gen_failed"):
            ck.violation("gen-%s" % cid, {"case": c}, "C02 [%s]: generation failed for a supported program: %s\n%s" % (
                kind, c["gen_failed"], c["query"][:400]), case_key="gen|%s" % kind, signature=c["gen_failed"])
        elif cid in errors:
            sig = errors[cid][0]
            ck.violation("rustc-%s" % cid, {"case": c, "errors": errors[cid][:5]},
                         "C02 [%s, %s]: generated code does not type-check: %s\noptions: %s\n%s" % (
                             kind, c["schema_format"], sig[:250], json.dumps(conf)[:300], c["query"][:300]),
                         case_key="rustc|%s|%s" % (kind, re.sub(r"`[^`]*`", "`_`", sig)[:60]), signature=sig)
    ck.notes["cases_by_form"] = bykind
    ck.assumptions += ["programs: supported subset of ProgGen over the universe schema, made two-operation documents with shared fragments and variables of enum / custom scalar / input / @oneOf / [ID!]! types",
                       "the CLI form uses --custom-scalars-module crate::scalars and no external enums (a generated file's own `super` cannot be populated by the consumer)",
                       "option sets per (form, consumer) class are a pairwise-covering sample of the lattice TLC enumerates"]
    return ck.finish(exhaustive=False, rule="%d programs x 5 (delivery form, consumer) classes, option sets rotating over a pairwise cover; distinct = (program, form, consumer)" % len(docs))


if __name__ == "__main__":
    sys.exit(main("quick"))
