"""Decoding of abstract JSON values emitted by Exec.tla and the comparator's
equivalences (C01): key order; null == absent at object members; optional
`__typename` markers; numbers compared by value."""
import json

ATOMS = {
    "$nonascii": "héllo wörld ✓ 日本語 \U0001F600",
    "$long": "x" * 5000,
    "$escapes": "quote \" backslash \\ newline \n tab \t nul-ish \u0001 end",
    "RED$nl": "RED\r\n",
}


class Opt:
    def __init__(self, v):
        self.v = v

    def __repr__(self):
        return "Opt(%r)" % (self.v,)


def decode(v, pattern=False):
    t = v["t"]
    if t == "null":
        return None
    if t == "int":
        return int(v["s"])
    if t == "float":
        return float(v["s"])
    if t == "bool":
        return v["s"] == "true"
    if t == "str":
        return ATOMS.get(v["s"], v["s"])
    if t == "opt":
        return Opt(v["s"]) if pattern else v["s"]
    if t == "obj":
        return {p["k"]: decode(p["v"], pattern) for p in v["o"]}
    if t == "list":
        return [decode(x, pattern) for x in v["l"]]
    raise ValueError(t)


def to_jsonable(x):
    if isinstance(x, Opt):
        return {"$optional": x.v}
    if isinstance(x, dict):
        return {k: to_jsonable(v) for k, v in x.items()}
    if isinstance(x, list):
        return [to_jsonable(v) for v in x]
    return x


def match(expect, obs, path=""):
    """None if obs carries exactly the content of expect (modulo the equivalences), else a message."""
    if isinstance(expect, Opt):
        if obs is None or obs == expect.v:
            return None
        return "%s: expected (optional) %r, got %r" % (path, expect.v, obs)
    if expect is None:
        return None if obs is None else "%s: expected null/absent, got %s" % (path, json.dumps(obs)[:80])
    if isinstance(expect, dict):
        if not isinstance(obs, dict):
            return "%s: expected object, got %s" % (path, json.dumps(obs)[:80])
        for k, ev in expect.items():
            ov = obs.get(k)
            m = match(ev, ov, path + "/" + k)
            if m:
                return m
        for k, ov in obs.items():
            if k not in expect and ov is not None:
                return "%s: unexpected member %r = %s" % (path, k, json.dumps(ov)[:80])
        return None
    if isinstance(expect, list):
        if not isinstance(obs, list):
            return "%s: expected list, got %s" % (path, json.dumps(obs)[:80])
        if len(expect) != len(obs):
            return "%s: list length %d, expected %d" % (path, len(obs), len(expect))
        for i, (e, o) in enumerate(zip(expect, obs)):
            m = match(e, o, "%s/%d" % (path, i))
            if m:
                return m
        return None
    if isinstance(expect, bool) or isinstance(obs, bool):
        return None if (isinstance(expect, bool) and isinstance(obs, bool) and expect == obs) else \
            "%s: expected %r, got %r" % (path, expect, obs)
    if isinstance(expect, (int, float)):
        if isinstance(obs, (int, float)) and float(expect) == float(obs) and (
                not isinstance(expect, int) or not isinstance(obs, int) or expect == obs):
            return None
        return "%s: expected %r, got %r" % (path, expect, obs)
    return None if expect == obs else "%s: expected %r, got %r" % (path, expect, obs)


def at_path(v, path):
    """navigate '/a/0/b' in a decoded JSON value; returns (found, value)"""
    cur = v
    for seg in [s for s in path.split("/") if s != ""]:
        if isinstance(cur, list):
            try:
                cur = cur[int(seg)]
            except (ValueError, IndexError):
                return False, None
        elif isinstance(cur, dict):
            if seg not in cur:
                return False, None
            cur = cur[seg]
        else:
            return False, None
    return True, cur


def escaped_text(v):
    """JSON text of v with every character of every string (keys too) written as a \\uXXXX escape:
    an equivalent text that no parser can borrow strings from"""
    def esc(x):
        out = []
        for ch in x:
            o = ord(ch)
            if o > 0xFFFF:
                o -= 0x10000
                out.append("\\u%04x\\u%04x" % (0xD800 + (o >> 10), 0xDC00 + (o & 0x3FF)))
            else:
                out.append("\\u%04x" % o)
        return '"' + "".join(out) + '"'
    if isinstance(v, str):
        return esc(v)
    if isinstance(v, list):
        return "[" + ",".join(escaped_text(x) for x in v) + "]"
    if isinstance(v, dict):
        return "{" + ",".join(esc(k) + ":" + escaped_text(x) for k, x in v.items()) + "}"
    import json
    return json.dumps(v)
