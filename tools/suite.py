"""Traces of the repository's OWN test suite, validated against the specifications.

The repository's integration tests contain some forty `#[derive(GraphQLQuery)]` sites over
its own fixture schemas and queries.  Compiling them with the hooked derive
(`--cfg graphql_client_verif`) records, per derive: the options the derive built, the cache
and pipeline-stage events of the calls made in that rustc process, and the tokens it
produced.  This module

  * reads the attribute of every derive site from the SOURCE with its own small Rust
    lexer (independent of attributes.rs), giving the `entries` whose reference meaning is
    DeriveAttr!RefOptions,
  * turns the recorded events into the trace formats of Trace_C18 (options), TraceCache /
    Trace_Suite (cache events of every rustc process: the first use of a file loads it, every
    later one hits) and Trace_Pipeline (stage events),

so that the specifications are bound not only to generated inputs but also to the
executions the project's own tests produce.
"""
import json, os, re, hashlib
import vlib

# --------------------------------------------------------------------------------------
# a small Rust lexer (enough for attributes and item headers)
# --------------------------------------------------------------------------------------
IDENT = re.compile(r"[A-Za-z_][A-Za-z0-9_]*")


def unescape_rust(s):
    out, i = [], 0
    while i < len(s):
        ch = s[i]
        if ch != "\\":
            out.append(ch)
            i += 1
            continue
        n = s[i + 1]
        if n == "n":
            out.append("\n"); i += 2
        elif n == "r":
            out.append("\r"); i += 2
        elif n == "t":
            out.append("\t"); i += 2
        elif n == "0":
            out.append("\0"); i += 2
        elif n in "\\\"'":
            out.append(n); i += 2
        elif n == "x":
            out.append(chr(int(s[i + 2:i + 4], 16))); i += 4
        elif n == "u":
            j = s.index("}", i)
            out.append(chr(int(s[i + 3:j].replace("_", ""), 16))); i = j + 1
        elif n == "\n":
            i += 2
            while i < len(s) and s[i] in " \t\n\r":
                i += 1
        else:
            raise ValueError("unknown escape \\%s" % n)
    return "".join(out)


def lex(src):
    """-> list of (kind, text[, value]) with kind in ident | str | punct | other"""
    toks, i, n = [], 0, len(src)
    while i < n:
        ch = src[i]
        if ch in " \t\r\n":
            i += 1
        elif src.startswith("//", i):
            j = src.find("\n", i)
            i = n if j < 0 else j
        elif src.startswith("/*", i):
            depth, i = 1, i + 2
            while i < n and depth:
                if src.startswith("/*", i):
                    depth += 1; i += 2
                elif src.startswith("*/", i):
                    depth -= 1; i += 2
                else:
                    i += 1
        elif ch == '"' or (ch == "b" and src.startswith('b"', i)):
            if ch == "b":
                i += 1
            j = i + 1
            while src[j] != '"':
                j += 2 if src[j] == "\\" else 1
            toks.append(("str", src[i:j + 1], unescape_rust(src[i + 1:j])))
            i = j + 1
        elif ch == "r" and re.match(r'r#*"', src[i:i + 12]):
            m = re.match(r'r(#*)"', src[i:])
            close = '"' + m.group(1)
            j = src.index(close, i + len(m.group(0)))
            toks.append(("str", src[i:j + len(close)], src[i + len(m.group(0)):j]))
            i = j + len(close)
        elif ch == "'":
            m = re.match(r"'(\\.[^']*|[^\\'])'", src[i:])
            if m:
                toks.append(("other", m.group(0)))
                i += len(m.group(0))
            else:
                toks.append(("punct", "'"))
                i += 1
        elif IDENT.match(ch):
            m = IDENT.match(src, i)
            toks.append(("ident", m.group(0)))
            i = m.end()
        elif ch.isdigit():
            m = re.match(r"[0-9][0-9A-Za-z_.]*", src[i:])
            toks.append(("other", m.group(0)))
            i += len(m.group(0))
        else:
            toks.append(("punct", ch))
            i += 1
    return toks


def _group(toks, i):
    """toks[i] is an opening bracket: index just past the matching closing one"""
    pairs = {"(": ")", "[": "]", "{": "}"}
    depth, j = 0, i
    while True:
        t = toks[j]
        if t[0] == "punct" and t[1] in pairs:
            depth += 1
        elif t[0] == "punct" and t[1] in pairs.values():
            depth -= 1
            if depth == 0:
                return j + 1
        j += 1


def parse_graphql_attr(toks):
    """tokens strictly inside `graphql( ... )` -> (entries, trailing)"""
    entries, i = [], 0
    trailing = bool(toks) and toks[-1] == ("punct", ",")
    while i < len(toks):
        t = toks[i]
        if t == ("punct", ","):
            i += 1
            continue
        if t[0] != "ident":
            raise ValueError("unexpected token %r in #[graphql(...)]" % (t,))
        key = t[1]
        nxt = toks[i + 1] if i + 1 < len(toks) else None
        if nxt == ("punct", "="):
            lit = toks[i + 2]
            if lit[0] != "str":
                raise ValueError("value of %s is not a string literal" % key)
            entries.append({"kind": "kv", "key": key, "value": lit[2], "items": []})
            i += 3
        elif nxt == ("punct", "("):
            j = _group(toks, i + 1)
            items = [x[2] for x in toks[i + 2:j - 1] if x[0] == "str"]
            entries.append({"kind": "list", "key": key, "value": "", "items": items})
            i = j
        else:
            entries.append({"kind": "flag", "key": key, "value": "", "items": []})
            i += 1
    return entries, trailing


def find_derives(path):
    """every `#[derive(.. GraphQLQuery ..)] #[graphql(...)] <vis> struct Ident` of one source file"""
    toks = lex(open(path, encoding="utf-8").read())
    out, i = [], 0
    while i < len(toks):
        if toks[i] == ("punct", "#") and i + 1 < len(toks) and toks[i + 1] == ("punct", "["):
            # a run of outer attributes
            attrs, j = [], i
            while j < len(toks) and toks[j] == ("punct", "#") and toks[j + 1] == ("punct", "["):
                k = _group(toks, j + 1)
                attrs.append(toks[j + 2:k - 1])
                j = k
            derive = any(a and a[0] == ("ident", "derive") and ("ident", "GraphQLQuery") in a for a in attrs)
            gql = [a for a in attrs if a and a[0] == ("ident", "graphql")]
            if derive and gql:
                vis = ""
                if toks[j] == ("ident", "pub"):
                    vis = "pub"
                    j += 1
                    if toks[j] == ("punct", "("):
                        k = _group(toks, j)
                        vis += "(" + "".join(t[1] for t in toks[j + 1:k - 1]) + ")"
                        j = k
                if toks[j] == ("ident", "struct"):
                    a = gql[0]
                    entries, trailing = parse_graphql_attr(a[2:-1])
                    out.append({"file": path, "ident": toks[j + 1][1], "vis": vis, "entries": entries, "trailing": trailing})
            i = max(j, i + 1)
        else:
            i += 1
    return out


# --------------------------------------------------------------------------------------
# operation names of a query document (for the pipeline trace)
# --------------------------------------------------------------------------------------
def operation_names(text):
    """names of the operation definitions of a GraphQL document, in order (anonymous -> "")"""
    text = text.lstrip("\ufeff")
    i, n, depth, paren, names, pending = 0, len(text), 0, 0, [], False
    while i < n:
        ch = text[i]
        if ch == "#":
            j = text.find("\n", i)
            i = n if j < 0 else j
        elif text.startswith('"""', i):
            j = text.index('"""', i + 3)
            while text[j - 1] == "\\":
                j = text.index('"""', j + 3)
            i = j + 3
        elif ch == '"':
            j = i + 1
            while text[j] != '"':
                j += 2 if text[j] == "\\" else 1
            i = j + 1
        elif ch == "(":
            paren += 1
            i += 1
        elif ch == ")":
            paren -= 1
            i += 1
        elif paren:
            i += 1                      # variable definitions / directive arguments (may contain `{`)
        elif ch == "{":
            if depth == 0:
                if not pending:
                    names.append("")    # query shorthand
                pending = False
            depth += 1
            i += 1
        elif ch == "}":
            depth -= 1
            i += 1
        elif depth == 0 and IDENT.match(ch):
            m = IDENT.match(text, i)
            w, i = m.group(0), m.end()
            if not pending and w in ("query", "mutation", "subscription"):
                m2 = re.match(r"[\s,]*([A-Za-z_][A-Za-z0-9_]*)", text[i:])
                names.append(m2.group(1) if m2 else "")
                if m2:
                    i += m2.end()
                pending = True
            elif not pending and w == "fragment":
                pending = True
        else:
            i += 1
    return names


def file_id(path):
    try:
        return hashlib.sha1(open(path, "rb").read()).hexdigest()[:10]
    except OSError:
        return "missing"


# --------------------------------------------------------------------------------------
# recording: compile the repository's test crates with the hooked derive
# --------------------------------------------------------------------------------------
CRATE = os.path.join(vlib.REPO, "graphql_client")
_RECORD = {}


def record():
    """-> list of OptionsBuilt lines (dicts) in file order; compiles graphql_client's test crates
    (cargo check) into a target directory under /verif/work; /repo is only read"""
    if "lines" in _RECORD:
        return _RECORD["lines"]
    wd = os.path.join(vlib.WORK, "suite")
    os.makedirs(wd, exist_ok=True)
    # one recording at a time (C05, C08 and C18 all use it and may be started concurrently)
    import fcntl
    lock = open(os.path.join(wd, "record.lock"), "w")
    fcntl.flock(lock, fcntl.LOCK_EX)
    _RECORD["lock"] = lock
    trace = os.path.join(wd, "derive_trace.ndjson")
    if os.path.exists(trace):
        os.remove(trace)
    target = os.path.join(vlib.WORK, "target-suite")
    env = {"CARGO_NET_OFFLINE": "true", "CARGO_TARGET_DIR": target, "GRAPHQL_CLIENT_VERIF_TRACE": trace,
           "RUSTFLAGS": "--cfg graphql_client_verif --check-cfg cfg(graphql_client_verif)"}
    # force the re-expansion of every derive (the dependencies stay built)
    vlib.sh(["cargo", "clean", "--offline", "-p", "graphql_client"], cwd=vlib.REPO, timeout=600, env=env)
    p = vlib.sh(["cargo", "check", "--offline", "--tests", "-p", "graphql_client", "--message-format=short"],
                cwd=vlib.REPO, timeout=1800, env=env)
    lines = []
    if os.path.exists(trace):
        lines = [json.loads(l) for l in open(trace) if l.strip()]
    _RECORD["lines"] = lines
    _RECORD["cargo"] = p
    fcntl.flock(lock, fcntl.LOCK_UN)
    return lines


def cargo_result():
    return _RECORD.get("cargo")


def sites():
    out = []
    td = os.path.join(CRATE, "tests")
    for root, _, files in os.walk(td):
        for f in sorted(files):
            if f.endswith(".rs"):
                out += find_derives(os.path.join(root, f))
    return out


def written(entries, key):
    for e in entries:
        if e["key"] == key:
            return e["value"]
    return None


def match_sites(lines, all_sites):
    """pair every recorded derive with the source site it came from: same struct identifier and
    the same written paths (identifiers repeat across test files)"""
    pairs, unmatched = [], []
    for ln in lines:
        cands = [s for s in all_sites if s["ident"] == ln["ident"]
                 and ln["query_path"] == "%s/%s" % (ln["manifest_dir"], written(s["entries"], "query_path"))
                 and ln["schema_path"] == os.path.join(ln["manifest_dir"], written(s["entries"], "schema_path") or "")]
        # several sites with identical attribute text are interchangeable
        distinct = {json.dumps([c["entries"], c["trailing"], c["vis"]], sort_keys=True) for c in cands}
        if len(distinct) == 1:
            pairs.append((ln, cands[0]))
        else:
            unmatched.append((ln, cands))
    return pairs, unmatched


def fold_cache_events(evs, thread="t0"):
    """hook events of one call -> spec-level cache events (Acquire / Use / Release), stage events apart"""
    cache, stage, window = [], [], {}
    for e in evs:
        c = e["cache"]
        if e["event"] == "Acquire":
            cache.append({"a": "Acquire", "c": c})
            window[c] = "hit"
        elif e["event"] == "LoadOk":
            cache.append({"a": "Use", "c": c, "kind": "load"})
            window[c] = "loaded"
        elif e["event"] == "Release":
            if e.get("panicking"):
                cache.append({"a": "Use", "c": c, "kind": "panic"})
            else:
                if window.get(c) == "hit":
                    cache.append({"a": "Use", "c": c, "kind": "hit"})
                cache.append({"a": "Release", "c": c})
        elif e["event"] in ("Resolved", "Selected", "Rendered"):
            stage.append(e)
    return cache, stage


# --------------------------------------------------------------------------------------
# the cache histories of the rustc processes (Trace_Suite / TraceCache.tla)
# --------------------------------------------------------------------------------------
def options_from_event(ln):
    """library options equal to what the derive built (as recorded), for a fresh-process baseline"""
    import c18
    o = c18.obs_of(ln)
    lib = {"mode": "derive", "operation_name": o["operation_name"], "struct_ident": o["struct_ident"],
           "normalization": o["normalization"], "deprecation": o["deprecated"],
           "fragments_other_variant": o["fragments_other_variant"], "skip_serializing_none": o["skip_serializing_none"],
           "module_visibility": o["module_visibility"] or "inherited", "serde_path": o["serde_path"],
           "query_file": o["query_file"]}
    for k in ("response_derives", "variables_derives", "custom_scalars_module"):
        if o[k + "_set"]:
            lib[k] = o[k]
    if o["extern_enums"]:
        lib["extern_enums"] = o["extern_enums"]
    return lib


def cache_universe_and_trace(lines, symbol_of):
    """lines: OptionsBuilt records in file order; symbol_of(k, line, pure) -> observed outcome class of the hook
    call of line k.  Returns (universe, trace, nprocesses)."""
    paths = {}

    def pid_of(p):
        if p not in paths:
            paths[p] = "f%d" % (len(paths) + 1)
        return paths[p]
    calls, files = {}, {}
    per_pid = {}
    for k, ln in enumerate(lines):
        per_pid.setdefault(ln["pid"], []).append(k)
        q, s = pid_of(ln["query_path"]), pid_of(ln["schema_path"])
        o = "o" + hashlib.sha1((ln["dump"] + "|" + ln["ident"]).encode()).hexdigest()[:8]
        for c in ("h%d" % k, "r%d" % k):
            calls[c] = {"q": q, "s": s, "o": o}
    for p, i in paths.items():
        fid = file_id(p)
        files[i] = {"status": "missing" if fid == "missing" else "ok", "content": "" if fid == "missing" else fid}

    def pure(c):
        d = calls[c]
        return "ok:%s/%s/%s" % (files[d["q"]]["content"], files[d["s"]]["content"], d["o"])

    def ev(a, call="", c="", kind="", outcome="", plan=None):
        return {"a": a, "plan": plan or {}, "t": "t0" if a != "Reset" else "", "call": call, "c": c, "kind": kind, "outcome": outcome}
    trace = []
    for pid, ks in per_pid.items():
        plan = []
        for n, k in enumerate(ks):
            if n > 0:
                plan.append("r%d" % ks[n - 1])
            plan.append("h%d" % k)
        trace.append(ev("Reset", plan={"t0": plan}))
        for n, k in enumerate(ks):
            ln = lines[k]
            if n > 0:
                c = "r%d" % ks[n - 1]          # the real call of the previous derive: its events were drained now
                trace.append(ev("Begin", c))
                for e in fold_cache_events(ln["pre_events"])[0]:
                    trace.append(ev(e["a"], c=e["c"], kind=e.get("kind", "")))
                trace.append(ev("End", c, outcome=pure(c)))   # its tokens went to rustc: outcome not observed
            c = "h%d" % k
            trace.append(ev("Begin", c))
            for e in fold_cache_events(ln["events"])[0]:
                trace.append(ev(e["a"], c=e["c"], kind=e.get("kind", "")))
            trace.append(ev("End", c, outcome=symbol_of(k, ln, pure(c))))
    return {"files": files, "calls": calls}, trace, len(per_pid)


def pipeline_trace(lines, site_of):
    """stage events of every hook call (and of the real calls) in the vocabulary of Trace_Pipeline"""
    blank = {"a": "", "ops": [], "requested": "", "normalization": "", "mode": "", "loadable": True, "valid": True,
             "names": [], "name": "", "outcome": ""}
    import c18
    trace = []
    for k, ln in enumerate(lines):
        try:
            ops = operation_names(open(ln["query_path"], encoding="utf-8").read())
        except OSError:
            continue
        o = c18.obs_of(ln)
        begin = dict(blank, a="Begin", ops=ops, requested=ln["ident"], normalization=o["normalization"], mode="derive")
        for evs, outcome in ((ln["events"], ln["status"]),):
            trace.append(begin)
            for e in fold_cache_events(evs)[1]:
                if e["event"] == "Resolved":
                    trace.append(dict(blank, a="Resolved"))
                elif e["event"] == "Selected":
                    trace.append(dict(blank, a="Selected", names=[x for x in e["key"].split(",") if x]))
                else:
                    trace.append(dict(blank, a="Rendered", name=e["key"]))
            trace.append(dict(blank, a="End", outcome=outcome))
    return trace
