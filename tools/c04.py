"""C04 - Variables serialise to exactly the operation's declared variables, validly typed.

MC_C04 (InputsExec.tla): for each base type (scalars, custom scalar, enum,
input object with nested / recursive / @oneOf members) an operation declaring a
variable of every type expression over it, and assignments: baseline, every
single-position alternative (None at each nullable member, list lengths 0/1/3,
each @oneOf member, enum values, scalar samples) and all-None.  For each
assignment the specification gives the intended value (`full`), the wire form
without skip_serializing_none (`wire`: explicit nulls) and with it (`skip`:
None members omitted).  The driver deserialises `full` into the generated
Variables (expressibility) and compares to_value(build_query(v)).variables
with the reference, under both normalizations.
"""
import json, os, sys
import vlib, render, payload
from consumer import Consumers
from vlib import Check, ToolError

PROP = "C04"
PRELUDE = "#![allow(warnings)]\npub type Date = String;\n"


def schema_from(sj):
    tr = lambda q, b: {"q": list(q), "base": b}
    types = [{"kind": "SCALAR", "name": "Date"}]
    for n, vals in sj["enums"].items():
        types.append({"kind": "ENUM", "name": n, "values": list(vals)})
    dflt = {(d["type"], d["field"]): d["text"] for d in sj.get("defaults", [])}
    for n, t in sj["inputs"].items():
        fields = []
        for f in t["fields"]:
            fd = {"name": f["name"], "type": tr(f["q"], f["base"])}
            if (n, f["name"]) in dflt:
                fd["default"] = dflt[(n, f["name"])]
            fields.append(fd)
        types.append({"kind": "INPUT_OBJECT", "name": n, "oneOf": bool(t["oneOf"]), "inputFields": fields})
    types.append({"kind": "OBJECT", "name": "Query", "interfaces": [],
                  "fields": [{"name": "x", "type": tr([], "Int"), "dep": None}]})
    return {"types": types, "roots": {"query": "Query"}, "explicit_roots": False}


DEFAULTS_SCHEMA = '''type Query { x: Int }
input Recipient { email: String! n: Int }
input Message { to: Recipient! text: String urgent: Boolean }
input Awkward { type: Int camelCase: String loop: Boolean }
input Tree { v: Int next: Tree }
input snake_in { a: Int }
'''


def defaults_part(ck, workdir, selftest=False):
    """growth: Variables::default_*() against Defaults.tla (one operation per base type x normalization)"""
    res = vlib.run_tlc("MC_C04d", "MC_C04d.cfg", timeout=300)
    ck.add_tlc(res)
    vlib.tlc_must_pass(res)
    allcases = sorted(res["cases"]["DEFAULT"], key=lambda c: json.dumps(c, sort_keys=True))
    sp = os.path.join(workdir, "defaults.graphql")
    vlib.write_if_changed(sp, DEFAULTS_SCHEMA)
    q = lambda t: t.replace("$q", '"')
    groups = {}
    for c in allcases:
        groups.setdefault(c["base"], []).append(c)
    jobs, meta = [], {}
    for base, cases in sorted(groups.items()):
        decls = ["$d%d: %s%s = %s" % (i, c["base"], "!" if c["nonnull"] else "", q(c["text"])) for i, c in enumerate(cases)]
        query = "query MyOp(%s) {\n  x\n}\n" % ", ".join(decls)
        for norm in ("none", "rust"):
            tag = "def_%s_%s" % (base.lower(), norm)
            jobs.append({"id": tag, "schema_path": sp, "query": query, "want_tokens": True,
                         "options": {"mode": "cli", "module_visibility": "pub", "normalization": norm,
                                     "variables_derives": "Deserialize, Debug"}})
            meta[tag] = (base, norm, cases, decls, query)
    rs, _ = vlib.gqlv("gen", jobs)
    cons = Consumers("c04d", nbins=4)
    for r in rs:
        base, norm, cases, decls, query = meta[r["id"]]
        ck.count()
        if r["status"] != "ok":
            ck.violation("defaults-gen-%s" % r["id"], {"query": query, "normalization": norm, "observed": r},
                         "C04(defaults): generation failed for defaults of %s: %s" % (base, r.get("msg")), case_key="defaults-gen|%s" % base)
            continue
        helper = "\npub fn verif_defaults() -> serde_json::Value { serde_json::json!({%s}) }\n" % ", ".join(
            '"d%d": my_op::Variables::default_d%d()' % (i, i) for i in range(len(cases)))
        cons.add_case(r["id"], PRELUDE + r["tokens"] + helper, "MyOp", kinds=("defaults", "vars"))
    errs = cons.build()
    first = True
    for tag, (base, norm, cases, decls, query) in meta.items():
        if tag not in cons.cases:
            continue
        if tag in errs:
            ck.count()
            ck.violation("defaults-compile-%s" % tag, {"query": query, "normalization": norm, "errors": errs[tag][:4]},
                         "C04(defaults): default value functions of %s variables (normalization %s) do not compile: %s\n%s" % (
                             base, norm, errs[tag][0][:200], query), case_key="defaults-compile|%s|%s" % (base, norm), signature=errs[tag][0][:80])
            continue
        wants = [json.loads(json.dumps(payload.decode(c["expect"])).replace("$q", '\\"')) for c in cases]
        # a default value does not make a non-null variable nullable: `$d: T! = v` still cannot hold null
        vj = [{"id": "all", "case": tag, "kind": "vars", "input": {"d%d" % k: w for k, w in enumerate(wants)}},
              {"id": "d", "case": tag, "kind": "defaults", "input": None}]
        for i, c in enumerate(cases):
            if c["nonnull"]:
                vj.append({"id": "null%d" % i, "case": tag, "kind": "vars",
                           "input": {"d%d" % k: (None if k == i else w) for k, w in enumerate(wants)}})
        vo = cons.run(vj)
        ck.count()
        if "ok" not in vo.get("all", {}) or vo["all"]["ok"].get("variables") != vj[0]["input"]:
            ck.violation("defaults-roundtrip-%s" % tag, {"assignment": vj[0]["input"], "observed": vo.get("all")},
                         "C04(defaults): the default values of %s are not expressible as Variables / do not round-trip: %s" % (base, json.dumps(vo.get("all"))[:300]),
                         case_key="defaults-roundtrip|%s" % base)
        for j in vj[2:]:
            ck.count()
            o2 = vo.get(j["id"], {})
            i = int(j["id"][4:])
            if "ok" in o2 and (o2["ok"].get("variables") or {}).get("d%d" % i, "absent") is None:
                ck.violation("default-null-%s-%d" % (tag, i), {"declaration": decls[i], "assignment": j["input"], "observed": o2},
                             "C04(defaults): `%s` is non-null, yet Variables can hold null there and sends `\"d%d\": null`" % (decls[i], i),
                             case_key="default|badnull")
        o = vo.get("d", {})
        for i, c in enumerate(cases):
            ck.count()
            want = wants[i]
            if selftest and first:
                want, first = "selftest", False
            got = o.get("d%d" % i, "<missing>") if isinstance(o, dict) else "<no result: %s>" % o
            if got != want:
                ck.violation("default-%s-%d" % (tag, i), {"declaration": decls[i], "normalization": norm, "expected": want, "observed": got},
                             "C04(defaults): `%s` (normalization %s): default_d%d() is %s, expected %s" % (
                                 decls[i], norm, i, json.dumps(got)[:120], json.dumps(want)[:120]),
                             case_key="default|%s" % c["base"])


def main(tier, replay=None, selftest=False):
    ck = Check(PROP, tier)
    vlib.build_harness()
    workdir = os.path.join(vlib.WORK, "c04")
    os.makedirs(workdir, exist_ok=True)
    res = vlib.run_tlc("MC_C04", "MC_C04_%s.cfg" % tier, workers=1, heap="12g", timeout=3000)
    ck.add_tlc(res)
    vlib.tlc_must_pass(res)
    sj = res["cases"]["SCHEMA"][0]
    cases = res["cases"]["CASE"]
    schema = schema_from(sj)
    paths = {"sdl": os.path.join(workdir, "schema.graphql"), "json": os.path.join(workdir, "schema.json")}
    vlib.write_if_changed(paths["sdl"], render.sdl(schema))
    vlib.write_if_changed(paths["json"], render.introspection_json(schema))
    if selftest:
        v = cases[0]["vectors"][0]
        v["wire"] = v["skip"] = {"t": "obj", "s": "", "o": [], "l": []}
    jobs, meta = [], {}
    for c in cases:
        q = "query MyOp(%s) {\n  x\n}\n" % ", ".join("$%s: %s" % (d["name"], d["text"]) for d in c["decls"])
        for skip in (False, True):
            for norm in ("none", "rust"):
                fmt = "json" if (skip and norm == "rust") else "sdl"
                tag = "%s_%s_%s" % (c["base"].lower(), "skip" if skip else "noskip", norm)
                jobs.append({"id": tag, "schema_path": paths[fmt], "query": q, "want_tokens": True,
                             "options": {"mode": "cli", "module_visibility": "pub", "normalization": norm,
                                         "skip_serializing_none": skip, "variables_derives": "Deserialize, Debug, PartialEq"}})
                meta[tag] = (c, skip, norm, q)
    results, _ = vlib.gqlv("gen", jobs)
    cons = Consumers("c04", nbins=12)
    for r in results:
        c, skip, norm, q = meta[r["id"]]
        if r["status"] != "ok":
            ck.count()
            ck.violation("gen-%s" % r["id"], {"base": c["base"], "query": q, "observed": r},
                         "C04: generation failed for variables over %s: %s %s" % (c["base"], r["status"], (r.get("msg") or "")[:200]), case_key="gen")
            continue
        cons.add_case("m_" + r["id"], PRELUDE + r["tokens"], "MyOp", kinds=("vars",))
    errs = cons.build()
    vj = []
    for tag, (c, skip, norm, q) in meta.items():
        cid = "m_" + tag
        if cid not in cons.cases:
            continue
        if cid in errs:
            ck.count()
            ck.violation("compile-%s" % tag, {"base": c["base"], "query": q, "errors": errs[cid][:3]},
                         "C04: Variables over %s do not compile (skip_none=%s, normalization=%s): %s" % (c["base"], skip, norm, errs[cid][0][:200]),
                         case_key="compile")
            continue
        for vi, v in enumerate(c["vectors"]):
            vj.append({"id": "%s|%d" % (tag, vi), "case": cid, "kind": "vars", "input": payload.decode(v["full"])})
    obs = cons.run(vj)
    declared = {}
    for j in vj:
        tag, vi = j["id"].split("|")
        c, skip, norm, q = meta[tag]
        v = c["vectors"][int(vi)]
        o = obs.get(j["id"], {})
        ck.count()
        want = payload.decode(v["skip"] if skip else v["wire"])
        name = "vars-%s-%s" % (tag, vlib.stable_hash([v["path"], v["alt"]]))
        rep = {"base": c["base"], "skip_serializing_none": skip, "normalization": norm, "query": q,
               "position": v["path"], "alternative": v["alt"]["a"] + ":" + v["alt"]["x"], "assignment": j["input"],
               "expected_wire": want, "observed": o}
        key = "%s|%s|%s" % (c["base"], "skip" if skip else "noskip", v["alt"]["a"])
        if len(ck.cov["samples"]) < 3 and v["path"] and c["base"] == "Filter":
            ck.sample({"query": q[:200], "position": v["path"], "alternative": v["alt"]["a"], "skip_none": skip,
                       "assignment": j["input"], "expected_wire": want})
        if not v.get("valid", True):
            # null at a non-null position: either the generated types cannot hold it (rejected), or a
            # Variables value exists that serialises null where the declared type forbids it
            if "ok" in o:
                found, val = payload.at_path(o["ok"].get("variables"), v["path"])
                if found and val is None:
                    ck.violation(name, rep, "C04: Variables can hold null at the non-null position %s (%s; skip_none=%s, %s) and sends %s\n%s" % (
                        v["path"], c["base"], skip, norm, "null", json.dumps(o["ok"].get("variables"))[:300]),
                        case_key="%s|badnull" % c["base"], signature="badnull")
            continue
        if "ok" not in o:
            ck.violation(name, rep, "C04: a valid assignment is not expressible as Variables (%s; %s at %s): %s\nassignment: %s" % (
                c["base"], v["alt"]["a"], v["path"], o, json.dumps(j["input"])[:300]), case_key=key, signature=json.dumps(o))
            continue
        body = o["ok"]
        if sorted(body) != ["operationName", "query", "variables"]:
            ck.violation(name, rep, "C04: request body has members %s" % sorted(body), case_key=key)
            continue
        got = body["variables"]
        if got != want:
            # explain the first difference
            diff = payload.match(want, got) or payload.match(got, want) or "null vs absent difference"
            ck.violation(name, rep, "C04 (%s, skip_none=%s, %s; %s at %s): serialised variables differ from the reference: %s\nexpected %s\ngot      %s" % (
                c["base"], skip, norm, v["alt"]["a"], v["path"], diff, json.dumps(want)[:400], json.dumps(got)[:400]),
                case_key=key, signature=diff)
    defaults_part(ck, workdir, selftest)
    ck.assumptions += ["input-type universe of InputsExec.tla (Filter: nested / recursive / keyword and mixed-case member names; By: @oneOf with scalar, list, enum and object members)",
                       "assignments within Hamming distance 1 of the baseline, plus all-None; nested objects are cut by Fuel"]
    return ck.finish(exhaustive=True, rule="9 base types x every type expression up to list depth %d (one less for input objects) x assignments x skip_serializing_none x normalization" % (2 if tier == "quick" else 3))


if __name__ == "__main__":
    sys.exit(main("quick"))
