"""C11 - Rust keywords and naming conventions never reach the wire or break the build.

MC_C11 (Names.tla): TLC checks the binary-search model over the keyword table
for every needle (and shows it failing on an unsorted table), and emits every
name of the pool.  The driver places every name at every position (response
field, alias, variable, input-object field, @oneOf input member, enum value) under both
normalizations, compiles the generated code and observes the JSON keys /
strings on the wire.
"""
import json, os, re, sys
import vlib, render
from consumer import Consumers
from vlib import Check, ToolError

PROP = "C11"
POSITIONS = ["field", "listfield", "alias", "aliascase", "variable", "inputfield", "recinputfield", "oneoffield", "enumvalue"]


def snake(n):
    s = re.sub(r"([a-z0-9])([A-Z])", r"\1_\2", n)
    s = re.sub(r"([A-Z]+)([A-Z][a-z])", r"\1_\2", s)
    return s.strip("_").lower()


def camel(n):
    return "".join(p[:1].upper() + p[1:].lower() for p in re.split(r"_+|(?<=[a-z0-9])(?=[A-Z])", n) if p)


GQL_NAME = re.compile(r"^[_A-Za-z][_0-9A-Za-z]*$")


def respell(n):
    r = _respell(n)
    return r if r and GQL_NAME.match(r) else None


def _respell(n):
    """the same words in another case style (an alias that only re-spells its field): snake_case for names
    that are not snake_case, lowerCamelCase / Capitalised otherwise; None if there is no other spelling"""
    sn = snake(n)
    if sn and sn != n:
        return sn
    parts = [p for p in n.split("_") if p]
    if len(parts) > 1:
        return parts[0] + "".join(p[:1].upper() + p[1:] for p in parts[1:])
    if n[:1].islower():
        return n[:1].upper() + n[1:]
    return None


def packs(names, keyf):
    """split names into packs without collisions of keyf (Rust identifier after the generator's renaming)"""
    out = []
    for n in names:
        k = keyf(n)
        for p in out:
            if k not in p["keys"]:
                p["keys"].add(k)
                p["names"].append(n)
                break
        else:
            out.append({"keys": {k}, "names": [n]})
    return [p["names"] for p in out]


def build(names, pos, norm, workdir, tag):
    """schema + query + vectors for one pack"""
    tr = lambda b, q=(): {"q": list(q), "base": b}
    types = []
    qfields = [{"name": "x", "type": tr("Int"), "dep": None}]
    obj_fields = [{"name": "x", "type": tr("Int"), "dep": None}]
    vars_, sel, in_fields, enum_vals, one_fields = [], [], [], [], []
    if pos == "field":
        obj_fields += [{"name": n, "type": tr("Int"), "dep": None} for n in names]
        sel = "  o {\n" + "\n".join("    %s" % n for n in names) + "\n  }"
        payload = {"o": {n: i for i, n in enumerate(names)}}
    elif pos == "listfield":
        # nullable list fields under skip_serializing_none (the one response position that option touches)
        obj_fields += [{"name": n, "type": tr("Int", ["L"]), "dep": None} for n in names]
        sel = "  o {\n" + "\n".join("    %s" % n for n in names) + "\n  }"
        payload = {"o": {n: [i] for i, n in enumerate(names)}}
    elif pos == "alias":
        sel = "  o {\n" + "\n".join("    %s: x" % n for n in names) + "\n  }"
        payload = {"o": {n: i for i, n in enumerate(names)}}
    elif pos == "aliascase":
        # every field aliased by a re-spelling of its own name: the key on the wire is the alias
        obj_fields += [{"name": n, "type": tr("Int"), "dep": None} for n in names]
        sel = "  o {\n" + "\n".join("    %s: %s" % (respell(n), n) for n in names) + "\n  }"
        payload = {"o": {respell(n): i for i, n in enumerate(names)}}
    elif pos == "variable":
        vars_ = ["$%s: Int" % n for n in names]
        sel = "  x"
        payload = None
    elif pos == "inputfield":
        in_fields = [{"name": n, "type": tr("Int")} for n in names]
        vars_ = ["$inp: In"]
        sel = "  x"
        payload = None
    elif pos == "recinputfield":
        # members of a self-referential input object (they are boxed): the wire names stay the GraphQL names
        in_fields = [{"name": n, "type": tr("In")} for n in names]
        vars_ = ["$inp: In"]
        sel = "  x"
        payload = None
    elif pos == "oneoffield":
        one_fields = [{"name": n, "type": tr("Int")} for n in names]
        vars_ = ["$one: One"]
        sel = "  x"
        payload = None
    else:
        enum_vals = list(names)
        obj_fields.append({"name": "es", "type": tr("E", ["R", "L", "R"]), "dep": None})
        in_fields = [{"name": "e", "type": tr("E")}]
        vars_ = ["$e: [E!]", "$inp: In"]
        sel = "  o {\n    es\n  }"
        payload = {"o": {"es": list(names)}}
    types.append({"kind": "OBJECT", "name": "Obj", "fields": obj_fields, "interfaces": []})
    if enum_vals:
        types.append({"kind": "ENUM", "name": "E", "values": enum_vals})
    if in_fields:
        types.append({"kind": "INPUT_OBJECT", "name": "In", "inputFields": in_fields})
    if one_fields:
        types.append({"kind": "INPUT_OBJECT", "name": "One", "oneOf": True, "inputFields": one_fields})
    qfields.append({"name": "o", "type": tr("Obj", ["R"]), "dep": None})
    types.append({"kind": "OBJECT", "name": "Query", "fields": qfields, "interfaces": []})
    schema = {"types": types, "roots": {"query": "Query"}, "explicit_roots": False}
    sp = os.path.join(workdir, "s_%s.graphql" % tag)
    vlib.write_if_changed(sp, render.sdl(schema))
    query = "query MyOp%s {\n%s\n}\n" % ("(" + ", ".join(vars_) + ")" if vars_ else "", sel)
    if pos == "variable":
        vin = {n: i for i, n in enumerate(names)}
    elif pos == "inputfield":
        vin = {"inp": {n: i for i, n in enumerate(names)}}
    elif pos == "recinputfield":
        vin = {"inp": {n: ({m: None for m in names} if i % 2 == 0 else None) for i, n in enumerate(names)}}
    elif pos == "oneoffield":
        vin = [{"one": {n: i}} for i, n in enumerate(names)]     # one assignment per member of the @oneOf input
    elif pos == "enumvalue":
        vin = {"e": list(names), "inp": {"e": names[0]}}
    else:
        vin = None
    return sp, query, payload, vin


def main(tier, replay=None, selftest=False):
    ck = Check(PROP, tier)
    vlib.build_harness()
    workdir = os.path.join(vlib.WORK, "c11")
    os.makedirs(workdir, exist_ok=True)
    res = vlib.run_tlc("MC_C11", "MC_C11.cfg", workers=2, timeout=600)
    ck.add_tlc(res)
    if res["violated"]:
        raise ToolError("MC_C11: %s violated (the transcribed keyword table is not what the search needs)" % res["violated"])
    vlib.tlc_must_pass(res)
    res2 = vlib.run_tlc("MC_C11", "MC_C11_swapped.cfg", workers=2, timeout=600)
    ck.add_tlc(res2)
    if res2["violated"] != "SearchCorrect":
        raise ToolError("the model with an unsorted table should violate SearchCorrect")
    names = sorted(c["name"] for c in res["cases"]["NAME"])
    kw = {c["name"] for c in res["cases"]["NAME"] if c["keyword"]}
    # `true` / `false` / `null` are not legal GraphQL enum value names
    jobs, meta = [], {}
    for pos in POSITIONS:
        for norm in ("none", "rust"):
            pool = [n for n in names if not (pos == "enumvalue" and n in ("true", "false", "null"))]
            if pos == "listfield":
                pool = [n for n in pool if n != "x"]       # `x: Int` is the fixed member of the fixture object
            if pos == "aliascase":
                pool = [n for n in pool if respell(n) and respell(n) not in ("true", "false", "null")]
            if pos == "enumvalue":
                esc = lambda n: n + "_" if n in kw else n
                keyf = (lambda n: esc(camel(esc(n)))) if norm == "rust" else esc
            elif pos == "aliascase":
                keyf = lambda n: snake(respell(n))
            elif pos == "oneoffield":
                keyf = lambda n: n.replace("_", "").lower()      # variant identifiers: anything equal up to case / underscores is kept apart
            else:
                keyf = snake
            for pi, pack in enumerate(packs(pool, keyf)):
                tag = "%s_%s_%d" % (pos, norm, pi)
                sp, query, payload, vin = build(pack, pos, norm, workdir, tag)
                jobs.append({"id": tag, "schema_path": sp, "query": query, "want_tokens": True,
                             "options": {"mode": "cli", "module_visibility": "pub", "normalization": norm,
                                         "skip_serializing_none": pos == "listfield" and norm == "rust",
                                         "response_derives": "Debug, Serialize", "variables_derives": "Deserialize, Debug"}})
                meta[tag] = (pos, norm, pack, sp, query, payload, vin)
    results, _ = vlib.gqlv("gen", jobs)

    def attempt(todo, depth=0):
        """compile a set of (tag, tokens); on failure bisect packs to the offending names"""
        cons = Consumers("c11", nbins=12)
        for tag, toks in todo:
            cons.add_case("m_" + tag, "#![allow(warnings)]\n" + toks, "MyOp", kinds=("resp", "vars"))
        errs = cons.build()
        return cons, errs
    todo = []
    for r in results:
        pos, norm, pack, sp, query, payload, vin = meta[r["id"]]
        if r["status"] != "ok":
            # find the offending names one by one
            bad = []
            for n in pack:
                sp1, q1, _, _ = build([n], pos, norm, workdir, "single_%s_%s_%s" % (pos, norm, vlib.stable_hash(n)))
                r1, _ = vlib.gqlv("gen", [{"id": n, "schema_path": sp1, "query": q1, "want_tokens": False,
                                           "options": {"mode": "cli", "normalization": norm}}])
                if r1[0]["status"] != "ok":
                    bad.append((n, r1[0]))
            for n, r1 in bad or [("<pack>", r)]:
                ck.count()
                ck.violation("gen-%s-%s-%s" % (pos, norm, n), {"name": n, "position": pos, "normalization": norm, "observed": r1},
                             "C11: name `%s` at position %s (normalization %s): generation %s: %s" % (
                                 n, pos, norm, r1["status"], (r1.get("msg") or "")[:200]),
                             case_key="%s|%s|%s" % (n, pos, norm), signature=r1.get("msg") or "")
            continue
        todo.append((r["id"], r["tokens"]))
    cons, errs = attempt(todo)
    for tag, toks in todo:
        pos, norm, pack, sp, query, payload, vin = meta[tag]
        cid = "m_" + tag
        if cid in errs:
            # bisect: compile each name of the pack on its own
            singles = []
            for n in pack:
                t1 = "one_%s_%s_%s" % (pos, norm, vlib.stable_hash(n))
                sp1, q1, _, _ = build([n], pos, norm, workdir, t1)
                singles.append({"id": t1, "schema_path": sp1, "query": q1, "want_tokens": True,
                                "options": jobs[0]["options"] | {"normalization": norm}})
                meta[t1] = (pos, norm, [n], sp1, q1, None, None)
            rs, _ = vlib.gqlv("gen", singles)
            c2 = Consumers("c11b", nbins=12)
            for r1 in rs:
                if r1["status"] == "ok":
                    c2.add_case("m_" + r1["id"], "#![allow(warnings)]\n" + r1["tokens"], "MyOp", kinds=("resp", "vars"))
            e2 = c2.build()
            culprits = [meta[k[2:]][2][0] for k in e2] + [meta[r1["id"]][2][0] for r1 in rs if r1["status"] != "ok"]
            for n in culprits or ["<pack of %d>" % len(pack)]:
                ck.count()
                msg = (e2.get("m_one_%s_%s_%s" % (pos, norm, vlib.stable_hash(n))) or errs[cid])[0]
                ck.violation("compile-%s-%s-%s" % (pos, norm, n), {"name": n, "position": pos, "normalization": norm, "errors": errs[cid][:3]},
                             "C11: name `%s` at position %s (normalization %s) breaks the build: %s" % (n, pos, norm, msg[:200]),
                             case_key="%s|%s|%s" % (n, pos, norm), signature=msg)
    vj = []
    for tag, toks in todo:
        pos, norm, pack, sp, query, payload, vin = meta[tag]
        cid = "m_" + tag
        if cid in errs:
            continue
        if payload is not None:
            vj.append({"id": tag + "|resp", "case": cid, "kind": "resp", "input": payload})
        if isinstance(vin, list):
            for k, one in enumerate(vin):
                vj.append({"id": "%s|vars|%d" % (tag, k), "case": cid, "kind": "vars", "input": one})
        elif vin is not None:
            vj.append({"id": tag + "|vars", "case": cid, "kind": "vars", "input": vin})
    obs = cons.run(vj)
    for j in vj:
        tag, kind = j["id"].split("|")[:2]
        pos, norm, pack, sp, query, payload, vin = meta[tag]
        o = obs.get(j["id"], {})
        got = o.get("ok") if kind == "resp" else (o.get("ok") or {}).get("variables")
        want = j["input"]
        if selftest and kind == "resp" and pos == "alias":
            want = dict(want, o=dict(want["o"], selftest=1))
        for n in (pack if not j["id"].count("|") == 2 else pack[:1]):
            ck.count()
        if len(ck.cov["samples"]) < 3:
            ck.sample({"position": pos, "normalization": norm, "names": pack[:8], "query": query[:300]})
        if got != want:
            # name the names that went wrong
            def flat(v):
                if isinstance(v, dict):
                    return {k: flat(x) for k, x in v.items()}
                return v
            wrong = []
            try:
                a, b = (want.get("o") or want.get("inp") or want.get("one") or want), ((got or {}).get("o") or (got or {}).get("inp") or (got or {}).get("one") or got or {})
                if isinstance(a, dict) and isinstance(b, dict):
                    wrong = sorted(set(a) ^ set(b)) or [k for k in a if a[k] != b.get(k)]
            except AttributeError:
                pass
            ck.violation("wire-%s" % j["id"].replace("|vars", "").replace("|resp", "").replace("|", "-"), {"position": pos, "normalization": norm, "names": pack, "sent": want, "observed": o},
                         "C11: position %s, normalization %s: the wire names differ from the GraphQL names (%s): expected %s, got %s" % (
                             pos, norm, wrong[:10], json.dumps(want)[:200], json.dumps(o)[:200]),
                         case_key="wire|%s|%s|%s" % (pos, norm, ",".join(wrong[:3])))
    ck.notes["names"] = len(names)
    ck.notes["keywords"] = len(kw)
    ck.assumptions += ["names that collide after the generator's own renaming (e.g. `self` / `Self`, `type` / `Type`) are placed in different modules",
                       "`true`, `false`, `null` are not legal enum value names in GraphQL and are not used as such"]
    return ck.finish(exhaustive=True, rule="every keyword (52) and naming style of Names!Pool x 9 positions (incl. nullable list fields under skip_serializing_none, aliases that re-spell their field, members of recursive and of @oneOf inputs) x 2 normalizations; distinct = (name, position, normalization)")


if __name__ == "__main__":
    sys.exit(main("quick"))
