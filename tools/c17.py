"""C17 - code generation terminates cleanly on every input, cyclic ones included.

Walks.tla / MC_C17: TLC checks on every directed graph that a walk with a
visited set has a bounded call stack and terminates (and exhibits the unbounded
stack when the visited set is missing).  Every graph is turned into adversarial
fragment-spread and input-type cycles; together with nesting-depth, empty /
self-referential abstract types and broken texts they are run through the real
generator, one isolated process per case: it must exit by itself with a result,
an error or a Rust panic - never by a signal, never by timeout.
"""
import json, os, random, sys, concurrent.futures
import vlib
from vlib import Check, ToolError

PROP = "C17"

SCHEMA = '''schema { query: Query }
type Query { obj: Obj iface: Iface uni: Uni empty: Empty selfish: Selfish lonelyu: NoMembers deep: %(deep)s
  q(a: InA, b: InB, c: InC): Int }
type Obj implements Iface { id: ID next: Obj inext: Iface unext: Uni list: [Obj!] }
type Obj2 implements Iface { id: ID next: Obj inext: Iface unext: Uni list: [Obj!] }
interface Iface { id: ID next: Obj inext: Iface unext: Uni list: [Obj!] }
union Uni = Obj | Obj2
interface Empty { x: Int }
union Selfish = Selfish | Obj
union NoMembers = Obj
%(inputs)s
'''

TYPES = {"obj": ("Obj", "obj"), "iface": ("Iface", "iface"), "uni": ("Uni", "uni")}


def frag_doc(graph, on_kind, place, typename):
    """fragments F1..Fn on a type of the given kind; edge i->j = Fi spreads Fj at `place`."""
    tname, root = TYPES[on_kind]
    n = graph["n"]
    edges = {(e[0], e[1]) for e in graph["edges"]}
    out = ["query Q {\n  %s {\n    %s...F1\n  }\n}" % (root, "__typename\n    " if typename else "")]
    for i in range(1, n + 1):
        body = []
        if typename:
            body.append("  __typename")
        if on_kind != "uni":
            body.append("  id")
        for j in range(1, n + 1):
            if (i, j) in edges:
                if place == "direct":
                    body.append("  ...F%d" % j)
                elif place == "field":
                    fld = {"obj": "next", "iface": "inext", "uni": "unext"}[on_kind]
                    if on_kind == "uni":
                        body.append("  ... on Obj { %s { %s...F%d } }" % (fld, "__typename " if typename else "", j))
                    else:
                        body.append("  %s { %s...F%d }" % (fld, "__typename " if typename else "", j))
                else:  # inline
                    if on_kind == "obj":
                        body.append("  ... on Obj { ...F%d }" % j)
                    else:
                        body.append("  ... on Obj { %s { %s...F%d } }" % (
                            {"iface": "inext", "uni": "unext"}[on_kind], "__typename " if typename else "", j))
        if not body:
            body.append("  __typename")
        out.append("fragment F%d on %s {\n%s\n}" % (i, tname, "\n".join(body)))
    return "\n\n".join(out) + "\n"


def input_schema(graph, kind):
    """input types In1..Inn; edge i->j = Ini has a member of type Inj with modifier `kind`."""
    n = graph["n"]
    edges = {(e[0], e[1]) for e in graph["edges"]}
    wrap = {"nonnull": "%s!", "nullable": "%s", "list": "[%s!]!", "nnlist": "[%s]"}[kind]
    lines = []
    for i in range(1, n + 1):
        fields = ["x: Int"] + ["m%d: %s" % (j, wrap % ("In%d" % j)) for j in range(1, n + 1) if (i, j) in edges]
        lines.append("input In%d { %s }" % (i, " ".join(fields)))
    return "\n".join(lines)


def deep_type(d):
    return "[" * d + "Int" + "]" * d


def build_cases(graphs, tier, rng, workdir):
    base_inputs = "input InA { b: InB } input InB { a: InA c: InC! } input InC { x: Int }"
    schema_path = os.path.join(workdir, "adv.graphql")
    vlib.write_if_changed(schema_path, SCHEMA % {"deep": "Int", "inputs": base_inputs})
    cases = []
    if tier == "thorough":
        # every graph with at most 4 edges and a seeded sample of the denser ones
        sel = [g for g in graphs if len(g["edges"]) <= 4]
        dense = [g for g in graphs if len(g["edges"]) > 4]
        sel = sel[:3000] + rng.sample(dense, min(1500, len(dense)))
    else:
        sel = [g for g in graphs if len(g["edges"]) <= 2] + rng.sample(graphs, min(60, len(graphs)))
    for g in sel:
        for kind in ("obj", "iface", "uni"):
            for place in ("direct", "field", "inline"):
                for tn in (True, False):
                    if len(g["edges"]) > 2 and rng.random() < (0.6 if tier == "quick" else 0.8):
                        continue
                    cases.append({"class": "spread-cycle", "detail": {"graph": g, "on": kind, "place": place, "typename": tn},
                                  "schema_path": schema_path, "query": frag_doc(g, kind, place, tn)})
    # long cycles 4..6
    for n in (4, 5, 6):
        g = {"n": n, "edges": [[i, i % n + 1] for i in range(1, n + 1)], "cyclic": True}
        for kind in ("obj", "iface", "uni"):
            for place in ("direct", "field"):
                for tn in (True, False):
                    cases.append({"class": "spread-cycle-long", "detail": {"graph": g, "on": kind, "place": place, "typename": tn},
                                  "schema_path": schema_path, "query": frag_doc(g, kind, place, tn)})
    # input type graphs
    isel = rng.sample(graphs, min(80 if tier == "quick" else 1500, len(graphs)))
    for g in isel:
        for kind in ("nonnull", "nullable", "list", "nnlist"):
            sp = os.path.join(workdir, "in_%s_%s.graphql" % (vlib.stable_hash(g), kind))
            vlib.write_if_changed(sp, SCHEMA % {"deep": "Int", "inputs": base_inputs + "\n" + input_schema(g, kind)})
            cases.append({"class": "input-cycle", "detail": {"graph": g, "kind": kind}, "schema_path": sp,
                          "query": "query Q($v: In1, $w: [In1!]) {\n  obj { id }\n}\n"})
    # nesting depth
    for d in ((8, 32, 64) if tier == "quick" else (8, 32, 64, 128)):
        q = "query Q {\n  obj " + "{ next " * d + "{ id }" + " }" * d + "\n}\n"
        cases.append({"class": "deep-selection", "detail": {"depth": d}, "schema_path": schema_path, "query": q})
        q = "query Q {\n  iface { __typename " + "... on Obj { inext { __typename " * d + "id" + " } }" * d + " }\n}\n"
        cases.append({"class": "deep-inline", "detail": {"depth": d}, "schema_path": schema_path, "query": q})
        sp = os.path.join(workdir, "deep_%d.graphql" % d)
        vlib.write_if_changed(sp, SCHEMA % {"deep": deep_type(d), "inputs": base_inputs})
        cases.append({"class": "deep-type", "detail": {"depth": d}, "schema_path": sp,
                      "query": "query Q($v: %s) {\n  deep\n}\n" % deep_type(d)})
    # empty / self-referential abstract types
    for q in ("query Q { empty { __typename x } }", "query Q { empty { x } }",
              "query Q { selfish { __typename } }", "query Q { selfish { __typename ... on Selfish { __typename } } }",
              "query Q { selfish { __typename ... on Obj { id } } }", "query Q { lonelyu { __typename ... on Obj { id } } }",
              "fragment S on Selfish { __typename ...S }\nquery Q { selfish { ...S } }",
              "fragment E on Empty { __typename ...E }\nquery Q { empty { ...E } }",
              "fragment E on Empty { ...E }\nquery Q { empty { ...E } }",
              "fragment A on Obj { ...A }\nquery Q { obj { ...A } }",
              "fragment A on Obj { next { ...A } }\nquery Q { obj { ...A } }",
              "query Q { obj { ...Q } }", "query Q { ...Q }",
              # abstract type conditions met with odd unions / interfaces (overlap computations must terminate)
              "query Q { selfish { __typename ... on Iface { __typename id } } }",
              "query Q { selfish { __typename ... on Uni { __typename } } }",
              "query Q { selfish { __typename ... on Empty { x } } }",
              "query Q { iface { __typename ... on Selfish { __typename } } }",
              "query Q { uni { __typename ... on Selfish { __typename } } }",
              "query Q { empty { __typename ... on Selfish { __typename } } }",
              # errors reported from below inline fragments / spreads (the path to the offending selection is walked)
              "query Q { iface { __typename ... on Obj { inext { id } } } }",
              "query Q { iface { __typename ... on Obj { next { unext { ... on Obj { inext { id } } } } } } }",
              "fragment A on Obj { inext { id } }\nquery Q { iface { __typename ... on Obj { ...A } } }",
              "query Q { uni { __typename ... on Obj2 { next { nope } } } }",
              "query Q { uni { __typename ... on Obj2 { ... on Obj2 { ... on Nope { id } } } } }",
              # ... and from below inline fragments nested directly in one another on the SAME type, or next to a
              # field whose alias spells a path segment (`onObj`)
              "query Q { iface { __typename ... on Obj { ... on Obj { inext { id } } } } }",
              "query Q { iface { __typename ... on Obj { ... on Obj { ... on Obj { unext { ... on Obj { id } } } } } } }",
              "query Q { iface { __typename ... on Obj { ... on Obj { inext { __typename id } } } } }",
              "query Q { iface { __typename ... on Obj { onObj: next { inext { id } } } } }",
              "query Q { uni { __typename ... on Obj2 { ... on Obj2 { next { inext { id } } } } } }",
              "fragment S on Selfish { __typename }\nquery Q { iface { __typename ...S } }",
              "fragment I on Iface { __typename id }\nquery Q { selfish { __typename ...I } }"):
        cases.append({"class": "odd-abstract", "detail": {"query": q}, "schema_path": schema_path, "query": q + "\n"})
    # broken texts: prefixes of a valid document / schema, garbage
    good = frag_doc({"n": 2, "edges": [[1, 2]], "cyclic": False}, "iface", "field", True)
    step = max(1, len(good) // (25 if tier == "quick" else 120))
    for k in range(0, len(good), step):
        cases.append({"class": "truncated-query", "detail": {"bytes": k}, "schema_path": schema_path, "query": good[:k]})
    stext = SCHEMA % {"deep": "Int", "inputs": base_inputs}
    step = max(1, len(stext) // (25 if tier == "quick" else 120))
    for k in range(0, len(stext), step):
        sp = os.path.join(workdir, "trunc_%d.graphql" % k)
        vlib.write_if_changed(sp, stext[:k])
        cases.append({"class": "truncated-schema", "detail": {"bytes": k}, "schema_path": sp, "query": "query Q { obj { id } }\n"})
    # long error texts with multi-byte characters at every byte offset (file route and text route): whatever
    # reports the error must cope with it
    for k in range(4):
        for body, cls in (('"' * 3 + "a" * k + "é" * 300 + '"' * 3 + "\nquery Q { obj { id } }\n", "description"),
                          ("query Q { obj(x: \"" + "a" * k + "é✓" * 150 + ") { id } }\n", "unterminated-string"),
                          ("query Q { " + "a" * k + "é" * 300 + " }\n", "bad-name")):
            qp = os.path.join(workdir, "long_%s_%d.graphql" % (cls, k))
            vlib.write_if_changed(qp, body)
            cases.append({"class": "long-nonascii-error", "detail": {"shape": cls, "offset": k, "route": "file"},
                          "schema_path": schema_path, "query": body, "query_path": qp})
            cases.append({"class": "long-nonascii-error", "detail": {"shape": cls, "offset": k, "route": "text"},
                          "schema_path": schema_path, "query": body})
        sp = os.path.join(workdir, "long_schema_%d.graphql" % k)
        vlib.write_if_changed(sp, "type Query { a: Int }\n" + '"' * 3 + "a" * k + "é" * 300 + '"' * 3 + "\n@@@\n")
        cases.append({"class": "long-nonascii-error", "detail": {"shape": "schema", "offset": k, "route": "file"},
                      "schema_path": sp, "query": "query Q { a }\n"})
    import render
    js = render.introspection_json({"types": [{"kind": "OBJECT", "name": "Query", "fields": [
        {"name": "a", "type": {"q": [], "base": "Int"}, "args": [], "dep": None}], "interfaces": []}],
        "roots": {"query": "Query"}, "explicit_roots": False})
    step = max(1, len(js) // (20 if tier == "quick" else 100))
    for k in range(0, len(js), step):
        sp = os.path.join(workdir, "trunc_%d.json" % k)
        vlib.write_if_changed(sp, js[:k])
        cases.append({"class": "truncated-json-schema", "detail": {"bytes": k}, "schema_path": sp, "query": "query Q { a }\n"})
    for i in range(20 if tier == "quick" else 200):
        junk = "".join(rng.choice("{}()[]!:$@#\"\\\n abcQqueryfragmenton...é\U0001F600") for _ in range(rng.randint(1, 80)))
        cases.append({"class": "garbage-query", "detail": {"text": junk}, "schema_path": schema_path, "query": junk})
    # every broken / missing input once more, twice in one process
    missing = os.path.join(workdir, "does_not_exist.graphql")
    again = [dict(c, twice=True, **{"class": c["class"] + "-twice"}) for c in cases
             if c["class"] in ("truncated-schema", "truncated-json-schema", "long-nonascii-error") and c.get("detail", {}).get("route") != "text"][::3]
    again.append({"class": "missing-file-twice", "detail": {"which": "schema"}, "schema_path": missing, "query": "query Q { a }\n", "twice": True})
    again.append({"class": "missing-file-twice", "detail": {"which": "query"}, "schema_path": schema_path, "query": "", "query_path": missing, "twice": True})
    tq = os.path.join(workdir, "truncated_query.graphql")
    vlib.write_if_changed(tq, good[: len(good) // 2])
    again.append({"class": "truncated-query-twice", "detail": {}, "schema_path": schema_path, "query": "", "query_path": tq, "twice": True})
    return cases + again


def run_case(c):
    job = {"id": 0, "schema_path": c["schema_path"], "query": c["query"], "options": {"mode": "cli"}, "want_tokens": False}
    if c.get("query_path"):
        job = dict(job, query_path=c["query_path"])
        del job["query"]
    if c.get("twice"):
        # the same call twice in ONE process (a failed first call must not leave anything behind that makes
        # the second one hang or abort)
        plan = {"id": 0, "schedule": None, "threads": [{"id": 1, "calls": [{"call": "first", "job": job}, {"call": "second", "job": job}]}]}
        r = vlib.gqlv_isolated("threads", plan, timeout=20)
        if not r.get("timeout") and r.get("result"):
            rs = (r["result"].get("results") or {}).get("t1") or []
            r["result"] = rs[-1] if len(rs) == 2 else {"status": "incomplete", "msg": "only %d of 2 calls finished" % len(rs)}
        return r
    return vlib.gqlv_isolated("gen", job, timeout=20)


def main(tier, replay=None, selftest=False):
    ck = Check(PROP, tier)
    vlib.build_harness()
    workdir = os.path.join(vlib.WORK, "c17")
    os.makedirs(workdir, exist_ok=True)
    rng = random.Random(vlib.seed())
    if replay:
        rep = json.load(open(replay))
        cases = [rep["case"]]
    else:
        res = vlib.run_tlc("MC_C17", "MC_C17_visited%s.cfg" % ("" if tier == "quick" else "_thorough"), workers=8, timeout=1800)
        ck.add_tlc(res)
        if res["violated"]:
            raise ToolError("MC_C17: %s violated with a visited set" % res["violated"])
        vlib.tlc_must_pass(res)
        res2 = vlib.run_tlc("MC_C17", "MC_C17_novisited.cfg", workers=2, timeout=600)
        ck.add_tlc(res2)
        ck.notes["model_without_visited_set"] = "StackBounded violated" if res2["violated"] == "StackBounded" else str(res2["violated"])
        if res2["violated"] != "StackBounded":
            raise ToolError("the model without a visited set should exhibit the unbounded stack (got %s)" % res2["violated"])
        graphs = res["cases"]["GRAPH"]
        graphs.sort(key=lambda g: json.dumps(g, sort_keys=True))
        cases = build_cases(graphs, tier, rng, workdir)
    if selftest:
        cases.append({"class": "selftest", "detail": {}, "schema_path": "/nonexistent", "query": "", "selftest": True})
    classes = {}
    with concurrent.futures.ThreadPoolExecutor(max_workers=12) as ex:
        results = list(ex.map(run_case, cases))
    for c, r in zip(cases, results):
        ck.count()
        classes[c["class"]] = classes.get(c["class"], 0) + 1
        verdict = None
        if r.get("timeout"):
            verdict = "did not terminate within 20 s"
        elif r["rc"] != 0 or c.get("selftest"):
            verdict = "process exited with status %s (negative = killed by signal): %s" % (r["rc"], (r.get("stderr") or "")[-200:].strip())
        elif not r.get("result") or r["result"].get("status") not in ("ok", "err", "panic"):
            verdict = "no verdict was produced: %s" % str(r)[:300]
        elif r["result"]["status"] == "panic" and not (r["result"].get("msg") or "").strip():
            verdict = "panic without a message"
        if len(ck.cov["samples"]) < 4 and c["class"] in ("spread-cycle", "input-cycle") and len(c["detail"]["graph"]["edges"]) >= 3:
            ck.sample({"class": c["class"], "detail": c["detail"], "query": c["query"], "outcome": (r.get("result") or {}).get("status")})
        if verdict:
            d = c["detail"]
            key = "%s|%s" % (c["class"], json.dumps({k: v for k, v in d.items() if k in ("on", "place", "typename", "kind")}, sort_keys=True))
            ck.violation("%s-%s" % (c["class"], vlib.stable_hash([c["detail"], c["query"]])),
                         {"case": c, "observed": {k: v for k, v in r.items() if k != "result"}, "result": r.get("result")},
                         "C17 [%s %s]: %s\n%s" % (c["class"], json.dumps(c["detail"])[:200], verdict, c["query"][:400]),
                         case_key=key, signature=verdict)
    ck.notes["classes"] = classes
    ck.assumptions += ["one isolated process per input, 20 s limit; exit status 0 with a verdict Ok / Err / Panic(msg) is clean termination",
                       "graphs: all directed graphs on 3 (4) nodes for fragment spreads on object / interface / union types and for input types, cycles up to length 6"]
    return ck.finish(exhaustive=(tier == "thorough"), rule="adversarial inputs built from TLC's graphs + nesting depth + odd abstract types + broken texts; distinct = distinct (schema, query) texts")


if __name__ == "__main__":
    sys.exit(main("quick"))
