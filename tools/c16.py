"""C16 - ID fields accept strings and integers, canonically, wherever ID appears.

(a) MC_C16a (IdCoercion.tla): value classes x the two helper functions of
    graphql_client::serde_with, called directly by the driver.
(b) MC_C16b: every ID type expression x payload variations, through generated
    code compiled in consumer crates, at three positions (plain field, inside a
    flattened fragment, inside a union variant); sibling String / Int members
    must not coerce.
"""
import json, os, sys
import vlib, render, payload
from consumer import Consumers
from vlib import Check, ToolError

PROP = "C16"
PRELUDE = "#![allow(warnings)]\n"
OPTS = {"mode": "cli", "module_visibility": "pub", "response_derives": "Debug, PartialEq, Serialize", "deprecation": "allow"}


def part_a(ck):
    res = vlib.run_tlc("MC_C16a", "MC_C16a.cfg", timeout=300)
    ck.add_tlc(res)
    if res["violated"]:
        raise ToolError("MC_C16a: %s violated" % res["violated"])
    vlib.tlc_must_pass(res)
    cases = res["cases"]["CASE"]
    jobs = [{"id": i, "value": payload.decode(c["value"])} for i, c in enumerate(cases)]
    results, _ = vlib.gqlv("idcoerce", jobs)
    if len(results) != len(jobs):
        raise ToolError("gqlv idcoerce returned %d/%d" % (len(results), len(jobs)))

    def agrees(obs, exp):
        if exp["ok"]:
            if "ok" not in obs:
                return False
            want = payload.ATOMS.get(exp["text"], exp["text"]) if exp["some"] else None
            return obs["ok"] == want
        return "err" in obs
    for r in results:
        c = cases[r["id"]]
        val = jobs[r["id"]]["value"]
        ck.count()
        ck.sample({"value": val if not isinstance(val, str) or len(val) < 50 else val[:50], "nonnull": c["nonnull"], "nullable": c["nullable"]}, limit=2)
        for fn, key, exp in (("deserialize_id", "id_value", c["nonnull"]), ("deserialize_id", "id_str", c["nonnull"]),
                             ("deserialize_option_id", "opt_value", c["nullable"]),
                             ("deserialize_option_id", "opt_str", c["nullable"])):
            if "panic" in r or not agrees(r[key], exp):
                ck.violation("helper-%s-%s" % (key, vlib.stable_hash(val)),
                             {"part": "a", "case": c, "value": val, "observed": r},
                             "C16a: %s(%s) via %s gave %s, expected %s" % (fn, json.dumps(val)[:80], key, r.get(key, r), exp),
                             case_key="helper|%s" % fn)


def build_modules(cases, workdir):
    """One schema; one module per (expression, position)."""
    exprs = {}
    for c in cases:
        exprs.setdefault(c["text"], c)
    names = {t: "p%d" % i for i, t in enumerate(sorted(exprs))}
    tr = lambda b, q=(): {"q": list(q), "base": b}
    tfields = [{"name": names[t], "type": {"q": exprs[t]["q"], "base": "ID"}} for t in sorted(exprs)]
    tfields += [{"name": "s", "type": tr("String", ["R"])}, {"name": "n", "type": tr("Int", ["R"])}]
    schema = {"types": [
        {"kind": "OBJECT", "name": "T", "fields": tfields},
        {"kind": "OBJECT", "name": "Other", "fields": [{"name": "s", "type": tr("String")}]},
        {"kind": "UNION", "name": "U", "members": ["T", "Other"]},
        {"kind": "OBJECT", "name": "Query", "fields": [{"name": "t", "type": tr("T", ["R"])},
                                                         {"name": "u", "type": tr("U", ["R"])}]},
    ], "roots": {"query": "Query"}, "explicit_roots": False}
    os.makedirs(workdir, exist_ok=True)
    spath = os.path.join(workdir, "schema.graphql")
    vlib.write_if_changed(spath, render.sdl(schema))
    # the same schema written with explicit declarations of the built-in scalars (`scalar ID` ...), and as JSON
    spath_b = os.path.join(workdir, "schema_builtins.graphql")
    vlib.write_if_changed(spath_b, render.sdl(schema, declare_builtins=True))
    spath_j = os.path.join(workdir, "schema.json")
    vlib.write_if_changed(spath_j, render.introspection_json(schema))
    jobs, meta = [], {}
    for t in sorted(exprs):
        f = names[t]
        docs = {
            "plain": "query MyOp {\n  t {\n    %s\n    s\n    n\n  }\n}\n" % f,
            "frag": "query MyOp {\n  t {\n    ...F\n    n\n  }\n}\n\nfragment F on T {\n  %s\n  s\n}\n" % f,
            "variant": "query MyOp {\n  u {\n    __typename\n    ... on T {\n      %s\n      s\n      n\n    }\n  }\n}\n" % f,
        }
        for pos, q in docs.items():
            jid = "%s|%s" % (f, pos)
            jobs.append({"id": jid, "schema_path": spath, "query": q, "options": OPTS, "want_tokens": True})
            meta[jid] = (t, f, pos, q)
        # other renderings of the same schema: plain position only
        for tag, sp in (("plainb", spath_b), ("plainj", spath_j)):
            jid = "%s|%s" % (f, tag)
            jobs.append({"id": jid, "schema_path": sp, "query": docs["plain"], "options": OPTS, "want_tokens": True})
            meta[jid] = (t, f, tag, docs["plain"])
        # ... and under skip_serializing_none (the ID attributes share the field with its serde attributes)
        for tag, q in (("plains", docs["plain"]), ("frags", docs["frag"])):
            jid = "%s|%s" % (f, tag)
            jobs.append({"id": jid, "schema_path": spath, "query": q, "options": dict(OPTS, skip_serializing_none=True), "want_tokens": True})
            meta[jid] = (t, f, tag, q)
        # ... and under normalization = rust (the ID helpers are attached by the type's name: `ID`, not `Id`)
        for tag, q in (("plainr", docs["plain"]), ("variantr", docs["variant"])):
            jid = "%s|%s" % (f, tag)
            jobs.append({"id": jid, "schema_path": spath, "query": q, "options": dict(OPTS, normalization="rust"), "want_tokens": True})
            meta[jid] = (t, f, tag, q)
    return jobs, meta, names, spath


def wrap(pos, f, val, absent):
    inner = {"s": "x", "n": 1}
    if not absent:
        inner[f] = val
    if pos.startswith("variant"):
        inner["__typename"] = "T"
        return {"u": inner}
    return {"t": inner}


def part_b(ck, tier, selftest=False):
    res = vlib.run_tlc("MC_C16b", "MC_C16b_%s.cfg" % tier, timeout=600)
    ck.add_tlc(res)
    vlib.tlc_must_pass(res)
    cases = res["cases"]["CASE"]
    if selftest:
        c = next(x for x in cases if x["verdict"] == "ok" and x["kind"] == "leaf")
        c["verdict"] = "reject"
    workdir = os.path.join(vlib.WORK, "c16")
    jobs, meta, names, spath = build_modules(cases, workdir)
    results, _ = vlib.gqlv("gen", jobs)
    cons = Consumers("c16", nbins=14)
    cid_of = {}
    for r in results:
        t, f, pos, q = meta[r["id"]]
        ck.count()
        if r["status"] != "ok":
            ck.violation("gen-%s-%s" % (f, pos), {"part": "b", "expr": t, "position": pos, "query": q, "observed": r},
                         "C16b: generation failed for ID expression %s at %s: %s" % (t, pos, r.get("msg")),
                         case_key="gen|%s" % t)
            continue
        cid = "m_%s_%s" % (f, pos)
        cons.add_case(cid, PRELUDE + r["tokens"], "MyOp")
        cid_of[(t, pos)] = cid
    errs = cons.build()
    for (t, pos), cid in cid_of.items():
        if cid in errs:
            haslist = "[" in t
            ck.violation("compile-%s" % cid, {"part": "b", "expr": t, "position": pos, "errors": errs[cid][:4],
                                               "schema_path": spath},
                         "C16b: generated code for ID expression `%s` (%s position) does not type-check: %s" % (
                             t, pos, errs[cid][0][:200]),
                         case_key="compile|%s|%s" % ("list" if haslist else "nolist", t), signature=errs[cid][0])
    # sibling members must not coerce: String <- 1 and Int <- "1" are rejected (checked once per module)
    vjobs, vmeta = [], {}
    for ci, c in enumerate(cases):
        for pos in ("plain", "frag", "variant", "plainb", "plainj", "plains", "frags", "plainr", "variantr"):
            cid = cid_of.get((c["text"], pos))
            if not cid or cid in errs:
                continue
            f = names[c["text"]]
            pl = wrap(pos, f, payload.decode(c["payload"]), c["absent"])
            jid = "%d|%s" % (ci, pos)
            vjobs.append({"id": jid, "case": cid, "kind": "resp", "input": pl})
            vmeta[jid] = (c, pos, pl, f, None)
    for (t, pos), cid in cid_of.items():
        if cid in errs:
            continue
        f = names[t]
        good = payload.decode(next(c for c in cases if c["text"] == t and c["kind"] == "leaf")["payload"])
        for sib, bad in (("s", 1), ("n", "1")):
            pl = wrap(pos, f, good, False)
            (pl.get("t") or pl.get("u"))[sib] = bad
            jid = "sib|%s|%s|%s" % (f, pos, sib)
            vjobs.append({"id": jid, "case": cid, "kind": "resp", "input": pl})
            vmeta[jid] = (None, pos, pl, f, sib)
    obs = cons.run(vjobs)
    for jid, (c, pos, pl, f, sib) in vmeta.items():
        r = obs.get(jid)
        if r is None or "skipped" in r:
            continue
        ck.count()
        if sib:
            if "ok" in r:
                ck.violation("sibling-%s" % jid, {"part": "b", "payload": pl, "observed": r},
                             "C16b: the non-ID sibling `%s` was coerced (payload %s accepted)" % (sib, json.dumps(pl)),
                             case_key="sibling")
            continue
        key = "%s|%s|%s" % (c["kind"], "list" if c["hasList"] else "nolist", pos)
        rep = {"part": "b", "case": c, "position": pos, "payload": pl, "observed": r}
        name = "%s-%s-%s-%s-%s" % (f, pos, c["kind"], c["level"], c["leaf"]["t"] + c["leaf"]["s"][:6])
        if c["verdict"] == "reject":
            if "ok" in r:
                ck.violation(name, rep, "C16b: `%s` %s: invalid payload accepted: %s -> %s" % (
                    c["text"], pos, json.dumps(pl)[:200], json.dumps(r)[:200]), case_key=key, signature="accepted")
            continue
        if "ok" not in r:
            ck.violation(name, rep, "C16b: `%s` at %s position, %s: valid payload rejected: %s -> %s" % (
                c["text"], pos, c["kind"], json.dumps(pl)[:200], r), case_key=key, signature=json.dumps(r))
            continue
        exp = wrap(pos, f, payload.decode(c["expect"]), c["absent"])
        m = payload.match(exp, r["ok"])
        if m:
            ck.violation(name, rep, "C16b: `%s` %s: %s (payload %s)" % (c["text"], pos, m, json.dumps(pl)[:200]),
                         case_key=key, signature=m)
    ck.sample({"expr": cases[0]["text"], "variation": cases[0]["kind"], "payload": payload.decode(cases[0]["payload"]),
               "verdict": cases[0]["verdict"]})


def main(tier, replay=None, selftest=False):
    ck = Check(PROP, tier)
    vlib.build_harness()
    part_a(ck)
    part_b(ck, tier, selftest)
    ck.assumptions += ["integers outside the signed 64-bit range are not covered (the property speaks of 64-bit signed integers)",
                       "list depth <= 2 (quick) / 3 (thorough); positions: plain field, flattened fragment, union variant"]
    return ck.finish(exhaustive=True, rule="(a) every value class x 2 helpers x 2 routes; (b) every ID type expression up to the depth bound x "
                                           "payload variation x 3 positions; distinct = distinct (expression, variation, position)")


if __name__ == "__main__":
    sys.exit(main("quick"))
