"""Consumer crates: compile generated modules with rustc + serde and run
vectors through them.  One cargo workspace per check under work/consumers/,
N bin crates built in parallel, one source file per case so that rustc
diagnostics can be attributed to a case.  Files are rewritten only when their
content changes, so unchanged cases cost nothing on the next run.
"""
import json, os, re, shutil, subprocess, time
import vlib
from vlib import ToolError, log

TARGET = os.path.join(vlib.WORK, "target-consumers")

MAIN_HEAD = r'''#![allow(warnings)]
use graphql_client::GraphQLQuery;
use serde::Serialize;
use serde_json::{json, Value};
use std::io::{BufRead, Write};

/// for cases generated with custom_scalars_module = crate::scalars
pub mod scalars {
    pub type Date = String;
}

fn resp<Q: GraphQLQuery>(v: Value) -> Value
where
    Q::ResponseData: Serialize + std::fmt::Debug,
{
    match serde_json::from_value::<Q::ResponseData>(v) {
        Ok(d) => match serde_json::to_value(&d) {
            Ok(j) => json!({"ok": j, "dbg": format!("{:?}", d)}),
            Err(e) => json!({"ser_err": e.to_string()}),
        },
        Err(e) => json!({"err": e.to_string()}),
    }
}

/// response given as JSON *text* (exercises the from_str path as well)
fn resp_str<Q: GraphQLQuery>(s: &str) -> Value
where
    Q::ResponseData: Serialize + std::fmt::Debug,
{
    match serde_json::from_str::<Q::ResponseData>(s) {
        Ok(d) => match serde_json::to_value(&d) {
            Ok(j) => json!({"ok": j}),
            Err(e) => json!({"ser_err": e.to_string()}),
        },
        Err(e) => json!({"err": e.to_string()}),
    }
}

/// response read from a byte stream (strings cannot be borrowed from the input)
fn resp_reader<Q: GraphQLQuery>(s: &str) -> Value
where
    Q::ResponseData: Serialize + std::fmt::Debug,
{
    match serde_json::from_reader::<_, Q::ResponseData>(s.as_bytes()) {
        Ok(d) => match serde_json::to_value(&d) {
            Ok(j) => json!({"ok": j}),
            Err(e) => json!({"ser_err": e.to_string()}),
        },
        Err(e) => json!({"err": e.to_string()}),
    }
}

fn vars<Q: GraphQLQuery>(v: Value) -> Value
where
    Q::Variables: serde::de::DeserializeOwned,
{
    match serde_json::from_value::<Q::Variables>(v) {
        Ok(vs) => match serde_json::to_value(&Q::build_query(vs)) {
            Ok(j) => json!({"ok": j}),
            Err(e) => json!({"ser_err": e.to_string()}),
        },
        Err(e) => json!({"err": e.to_string()}),
    }
}
'''

MAIN_TAIL = r'''
fn main() {
    let stdin = std::io::stdin();
    let stdout = std::io::stdout();
    let mut out = stdout.lock();
    for line in stdin.lock().lines() {
        let line = line.unwrap();
        if line.trim().is_empty() { continue; }
        let job: Value = serde_json::from_str(&line).unwrap();
        let case = job["case"].as_str().unwrap().to_string();
        let kind = job["kind"].as_str().unwrap().to_string();
        let input = job["input"].clone();
        let r = std::panic::catch_unwind(|| dispatch(&case, &kind, input));
        let res = match r {
            Ok(v) => v,
            Err(_) => json!({"panic": "panic in generated code"}),
        };
        let o = json!({"id": job["id"], "res": res});
        writeln!(out, "{}", o).unwrap();
    }
}
'''

CARGO_BIN = '''[package]
name = "%s"
version = "0.0.0"
edition = "2018"
publish = false

[dependencies]
graphql_client = { path = "/repo/graphql_client"%s }
%s
'''

WORKSPACE = '''[workspace]
resolver = "2"
members = [%s]

[profile.dev]
opt-level = 0
debug = 0
incremental = false
codegen-units = 8
'''


_HELD_LOCKS = {}

class Consumers:
    def __init__(self, name, nbins=14, with_serde=True, reader_route=False):
        self.name = name
        self.reader_route = reader_route   # also instantiate the from_reader route for responses
        # one user at a time per consumer workspace (C01 and C03 share theirs): checks may be started concurrently
        import fcntl
        os.makedirs(os.path.join(vlib.WORK, "consumers"), exist_ok=True)
        # one user at a time per workspace ACROSS processes; re-entrant within a process (a driver that bisects a
        # failing pack builds the same workspace again: a second flock on a new descriptor would wait for itself)
        if name not in _HELD_LOCKS:
            f = open(os.path.join(vlib.WORK, "consumers", name + ".lock"), "w")
            fcntl.flock(f, fcntl.LOCK_EX)      # released when the process ends
            _HELD_LOCKS[name] = f
        self._lock = _HELD_LOCKS[name]
        self.root = os.path.join(vlib.WORK, "consumers", name)
        self.nbins = nbins
        self.cases = {}        # case id -> dict(source, op, kinds)
        self.with_serde = with_serde
        self.errors = {}       # case id -> [messages]
        self.built = False

    def add_case(self, cid, source, op_ident, kinds=("resp",)):
        """source: Rust items (prelude + generated tokens) to be placed in `pub mod <cid>`;
        op_ident: path of the operation struct inside that module (e.g. `MyOp`)."""
        assert re.match(r"^[a-z][a-z0-9_]*$", cid), cid
        self.cases[cid] = {"source": source, "op": op_ident, "kinds": tuple(kinds)}

    def _bin_of(self, cid, order):
        return order.index(cid) % self.nbins

    def _write(self, skip=()):
        order = sorted(self.cases)
        bins = {}
        for cid in order:
            bins.setdefault(self._bin_of(cid, order), []).append(cid)
        self.bins = bins
        members = []
        for b in range(self.nbins):
            d = os.path.join(self.root, "bin%d" % b)
            members.append('"bin%d"' % b)
            deps = 'serde = { version = "1", features = ["derive"] }\nserde_json = "1"'
            vlib.write_if_changed(os.path.join(d, "Cargo.toml"),
                                  CARGO_BIN % ("%s_bin%d" % (self.name, b), "", deps))
            mods, arms = [], []
            for cid in bins.get(b, []):
                if cid in skip:
                    continue
                c = self.cases[cid]
                vlib.write_if_changed(os.path.join(d, "src", cid + ".rs"), c["source"] + "\n")
                mods.append("mod %s;" % cid)
                for k in c["kinds"]:
                    if k == "resp":
                        arms.append('        ("%s", "resp") => resp::<%s::%s>(input),' % (cid, cid, c["op"]))
                        arms.append('        ("%s", "resp_str") => resp_str::<%s::%s>(input.as_str().unwrap()),' % (cid, cid, c["op"]))
                        if self.reader_route:
                            arms.append('        ("%s", "resp_reader") => resp_reader::<%s::%s>(input.as_str().unwrap()),' % (cid, cid, c["op"]))
                    elif k == "vars":
                        arms.append('        ("%s", "vars") => vars::<%s::%s>(input),' % (cid, cid, c["op"]))
                    elif k == "defaults":
                        arms.append('        ("%s", "defaults") => %s::verif_defaults(),' % (cid, cid))
            main = (MAIN_HEAD + "\n".join(mods) + "\n\nfn dispatch(case: &str, kind: &str, input: Value) -> Value {\n"
                    "    match (case, kind) {\n" + "\n".join(arms) +
                    '\n        _ => json!({"nocase": true}),\n    }\n}\n' + MAIN_TAIL)
            vlib.write_if_changed(os.path.join(d, "src", "main.rs"), main)
            # remove stale case files
            keep = {cid + ".rs" for cid in bins.get(b, []) if cid not in skip} | {"main.rs"}
            sd = os.path.join(d, "src")
            for f in os.listdir(sd):
                if f not in keep:
                    os.remove(os.path.join(sd, f))
        vlib.write_if_changed(os.path.join(self.root, "Cargo.toml"), WORKSPACE % ", ".join(members))
        lock = os.path.join(self.root, "Cargo.lock")
        if not os.path.exists(lock):
            shutil.copy(os.path.join(vlib.REPO, "Cargo.lock"), lock)
        vlib.write_if_changed(os.path.join(self.root, ".cargo", "config.toml"),
                              '[net]\noffline = true\n\n[build]\ntarget-dir = "%s"\n' % TARGET)

    def _cargo(self, check_only=False):
        cmd = ["cargo", "check" if check_only else "build", "--offline", "--message-format=json", "--keep-going"]
        p = vlib.sh(cmd, cwd=self.root, timeout=3600, env={"CARGO_NET_OFFLINE": "true"})
        errs = {}
        other = []
        for line in p.stdout.splitlines():
            try:
                m = json.loads(line)
            except ValueError:
                continue
            if m.get("reason") != "compiler-message":
                continue
            msg = m["message"]
            if msg.get("level") not in ("error", "error: internal compiler error"):
                continue
            cid = None
            for sp in msg.get("spans", []):
                fn = os.path.basename(sp.get("file_name", ""))
                if fn.endswith(".rs") and fn != "main.rs" and fn[:-3] in self.cases:
                    cid = fn[:-3]
                    break
                # spans inside macro expansions point at the derive; follow expansion
                ex = sp.get("expansion")
                while ex and not cid:
                    fn2 = os.path.basename(ex["span"].get("file_name", ""))
                    if fn2.endswith(".rs") and fn2[:-3] in self.cases:
                        cid = fn2[:-3]
                    ex = ex["span"].get("expansion")
            text = (msg.get("code") or {}).get("code", "") or ""
            text = (text + " " + msg.get("message", "")).strip()
            if cid:
                errs.setdefault(cid, []).append(text)
            else:
                if "aborting due to" not in text and "could not compile" not in text:
                    other.append(text + " :: " + (msg.get("rendered") or "")[:500])
        return p.returncode, errs, other, p.stderr

    def build(self, check_only=False):
        """Build all bins; cases that do not compile are reported in self.errors and removed."""
        t = time.time()
        skip = set()
        for attempt in range(6):
            self._write(skip=skip)
            rc, errs, other, stderr = self._cargo(check_only)
            if rc == 0:
                break
            if not errs:
                raise ToolError("consumer build failed without attributable diagnostics:\n%s\n%s" % (
                    "\n".join(other[:5]), stderr[-3000:]))
            for cid, msgs in errs.items():
                self.errors.setdefault(cid, []).extend(msgs)
                skip.add(cid)
        else:
            raise ToolError("consumer build did not converge")
        self.skip = skip
        self.built = True
        log("[consumer %s] %d cases (%d failed to compile) in %d bins, %.1fs" % (
            self.name, len(self.cases), len(skip), self.nbins, time.time() - t))
        return self.errors

    def run(self, jobs):
        """jobs: list of {"id", "case", "kind", "input"} -> dict id -> result"""
        assert self.built
        order = sorted(self.cases)
        per_bin = {}
        for j in jobs:
            if j["case"] in self.skip:
                continue
            per_bin.setdefault(self._bin_of(j["case"], order), []).append(j)
        procs = []
        for b, js in per_bin.items():
            exe = os.path.join(TARGET, "debug", "%s_bin%d" % (self.name, b))
            inp = "".join(json.dumps(j) + "\n" for j in js)
            p = subprocess.Popen([exe], stdin=subprocess.PIPE, stdout=subprocess.PIPE,
                                 stderr=subprocess.PIPE, text=True)
            procs.append((b, js, p, inp))
        out = {}
        for b, js, p, inp in procs:
            try:
                so, se = p.communicate(inp, timeout=600)
            except subprocess.TimeoutExpired:
                p.kill()
                raise ToolError("consumer bin%d timed out" % b)
            got = 0
            for line in so.splitlines():
                if line.strip():
                    o = json.loads(line)
                    out[o["id"]] = o["res"]
                    got += 1
            if got != len(js):
                # the process died (stack overflow / abort in generated code): attribute to the first
                # unanswered job
                missing = [j for j in js if j["id"] not in out]
                for j in missing[:1]:
                    out[j["id"]] = {"crash": "consumer process exited with %s: %s" % (p.returncode, se[-300:])}
                for j in missing[1:]:
                    out[j["id"]] = {"skipped": "process died earlier"}
        return out
