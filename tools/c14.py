"""C14 - deprecation strategies allow / warn / deny do exactly what is documented.

MC_C14: TLC enumerates every assignment of deprecation states (none / bare /
two reason texts) to the probe fields of an object and of an interface, x the
strategy (allow, warn, deny, none given) x schema format, with the expected
state of every selected member.  The driver renders the schema (SDL directive /
JSON isDeprecated), generates code and reads attributes and member lists with
syn; for `deny` a sample is compiled and fed payloads that contain the omitted
fields.
"""
import json, os, random, sys
import vlib, render
from consumer import Consumers
from vlib import Check, ToolError

PROP = "C14"
ATOMS = {"$quotes": 'say "hi" \\ é ✓ #[x]'}

QUERY = '''query MyOp {
  t { id a al: b c { d } d ...F }
  node { __typename id a ... on T { b d c { d } } }
  only: t { oa: a ob: b }
  deep: t { c { oc: c { d } od: a } }
}

fragment F on T { fa: a fb: b d2: d }
'''


def dep(d):
    if d == "none":
        return None
    if d == "bare":
        return {"reason": None}
    return {"reason": ATOMS.get(d, d)}


def schema_for(c):
    tr = lambda b, q=(): {"q": list(q), "base": b}
    return {"types": [
        {"kind": "INTERFACE", "name": "Node", "fields": [
            {"name": "id", "type": tr("ID", ["R"]), "dep": None}, {"name": "a", "type": tr("Int"), "dep": dep(c["depNodeA"])}]},
        {"kind": "OBJECT", "name": "T", "interfaces": ["Node"], "fields": [
            {"name": "id", "type": tr("ID", ["R"]), "dep": None}, {"name": "a", "type": tr("Int"), "dep": dep(c["depA"])},
            {"name": "b", "type": tr("ID"), "dep": dep(c["depB"])}, {"name": "c", "type": tr("T"), "dep": dep(c["depC"])},
            {"name": "d", "type": tr("Int"), "dep": None}]},
        {"kind": "OBJECT", "name": "U", "interfaces": ["Node"], "fields": [
            {"name": "id", "type": tr("ID", ["R"]), "dep": None}, {"name": "a", "type": tr("Int"), "dep": None}]},
        {"kind": "OBJECT", "name": "Query", "fields": [
            {"name": "t", "type": tr("T"), "dep": None}, {"name": "node", "type": tr("Node"), "dep": None}]},
    ], "roots": {"query": "Query"}, "explicit_roots": False}


import re
WRAP = re.compile(r"^(Option|Vec|Box)<(.*)>$")


def inner(ty):
    while True:
        m = WRAP.match(ty)
        if not m:
            return ty
        ty = m.group(2)


def resolve(mod, path):
    """Navigate from ResponseData by wire names. Returns ('member', m) | ('absent', None) | ('lost', why)."""
    items = mod
    if path[0].startswith("frag:"):
        cur = items["structs"].get(path[0][5:])
        rest = path[1:]
    else:
        cur = items["structs"].get("ResponseData")
        rest = path
    if cur is None:
        return "lost", "container %s not found" % path[0]
    for i, seg in enumerate(rest):
        last = i == len(rest) - 1
        if seg.startswith("on:"):
            # cur is a struct with a flattened `on` enum, or the enum itself
            en = None
            if "variants" in cur:
                en = cur
            else:
                for f in cur["fields"]:
                    if f["attrs"]["serde"].get("flatten") and inner(f["ty"]) in items["enums"]:
                        en = items["enums"][inner(f["ty"])]
            if en is None:
                return "lost", "no variant enum at %s" % seg
            var = [v for v in en["variants"] if v["name"] == seg[3:]]
            if not var or not var[0]["fields"]:
                return "lost", "variant %s has no data" % seg
            tname = inner(var[0]["fields"][0]["ty"])
            while tname in items["types"]:
                tname = inner(items["types"][tname]["ty"])
            cur = items["structs"].get(tname)
            if cur is None:
                return "lost", "variant type %s not found" % tname
            continue
        if "fields" not in cur:
            return "lost", "not a struct at %s" % seg
        m = [f for f in cur["fields"] if f["wire"] == seg]
        if not m:
            return ("absent", None) if last else ("lost", "member %s missing on the way" % seg)
        if last:
            return "member", m[0]
        tname = inner(m[0]["ty"])
        while tname in items["types"]:
            tname = inner(items["types"][tname]["ty"])
        cur = items["structs"].get(tname) or items["enums"].get(tname)
        if cur is None:
            return "lost", "type %s of %s not found" % (tname, seg)
    return "lost", "empty path"


def main(tier, replay=None, selftest=False):
    ck = Check(PROP, tier)
    vlib.build_harness()
    workdir = os.path.join(vlib.WORK, "c14")
    os.makedirs(workdir, exist_ok=True)
    rng = random.Random(vlib.seed())
    res = vlib.run_tlc("MC_C14", "MC_C14.cfg", workers=4, timeout=900)
    ck.add_tlc(res)
    if res["violated"]:
        raise ToolError("MC_C14: %s violated" % res["violated"])
    vlib.tlc_must_pass(res)
    cases = res["cases"]["CASE"]
    if replay:
        cases = [json.load(open(replay))["case"]]
    elif tier == "quick":
        cases = rng.sample(cases, 800)
    if selftest:
        cases[0]["members"][1]["expect"] = "absent" if cases[0]["members"][1]["expect"] != "absent" else "plain"
    jobs = []
    for n, c in enumerate(cases):
        sch = schema_for(c)
        key = vlib.stable_hash([c["depA"], c["depB"], c["depC"], c["depNodeA"], c["fmt"]])
        if c["fmt"] == "sdl":
            sp = os.path.join(workdir, "s_%s.graphql" % key)
            vlib.write_if_changed(sp, render.sdl(sch))
        else:
            sp = os.path.join(workdir, "s_%s.json" % key)
            vlib.write_if_changed(sp, render.introspection_json(sch))
        opts = {"mode": "cli", "module_visibility": "pub", "response_derives": "Debug, Serialize"}
        if c["strategy"] != "unset":
            opts["deprecation"] = c["strategy"]
        jobs.append({"id": n, "schema_path": sp, "query": QUERY, "options": opts, "want_tokens": True, "want_inventory": True})
    results, proc = vlib.gqlv("gen", jobs, timeout=1800)
    if len(results) != len(jobs):
        raise ToolError("gqlv gen %d/%d" % (len(results), len(jobs)))
    deny_ok = []
    for r in results:
        c = cases[r["id"]]
        name = "dep-%s" % vlib.stable_hash(c)
        if r["status"] != "ok" or "inventory" not in r:
            ck.count()
            ck.violation(name, {"case": c, "observed": {k: v for k, v in r.items() if k != "tokens"}},
                         "C14: generation failed: %s %s" % (r["status"], r.get("msg") or r.get("parse_error")), case_key="gen")
            continue
        mod = r["inventory"]["mods"]["my_op"]["items"]
        probs = []
        for m in c["members"]:
            ck.count()
            kind, mem = resolve(mod, m["path"])
            want = m["expect"]
            if kind == "lost":
                # a member on the way was denied: everything below it is unobservable, fine
                parent_denied = any(mm["expect"] == "absent" and mm["path"] == m["path"][:len(mm["path"])] and mm["path"] != m["path"]
                                    for mm in c["members"])
                if not parent_denied:
                    probs.append("%s: %s" % ("/".join(m["path"]), mem))
                continue
            if want == "absent":
                if kind != "absent":
                    probs.append("%s: present although deprecated and the strategy is deny" % "/".join(m["path"]))
                continue
            if kind == "absent":
                probs.append("%s: member omitted (expected %s)" % ("/".join(m["path"]), want))
                continue
            d = mem["attrs"]["deprecated"]
            if want == "plain":
                if d is not None:
                    probs.append("%s: marked #[deprecated] (%r) although %s" % (
                        "/".join(m["path"]), d, "the strategy is allow" if c["strategy"] == "allow" else "the field is not deprecated"))
            elif want == "deprecated":
                if d is not True:
                    probs.append("%s: expected a bare #[deprecated], got %r" % ("/".join(m["path"]), d))
            else:
                reason = want[len("deprecated:"):]
                reason = ATOMS.get(reason, reason)
                if d != reason:
                    probs.append("%s: expected #[deprecated(note = %r)], got %r" % ("/".join(m["path"]), reason, d))
        if r["id"] % 300 == 1:
            ck.sample({"case": {k: v for k, v in c.items() if k != "members"}, "members": c["members"][:4]})
        if probs:
            ck.violation(name, {"case": c, "schema_path": jobs[r["id"]]["schema_path"], "query": QUERY, "problems": probs},
                         "C14 (%s, %s; a=%s b=%s c=%s Node.a=%s): %s" % (c["strategy"], c["fmt"], c["depA"], c["depB"], c["depC"],
                                                                          c["depNodeA"], "; ".join(probs[:4])),
                         case_key="%s|%s" % (c["strategy"], c["fmt"]))
        elif c["strategy"] == "deny":
            deny_ok.append((r, c))
    # deny: payloads that still contain the omitted fields deserialise
    sample = rng.sample(deny_ok, min(12 if tier == "quick" else 100, len(deny_ok)))
    if sample:
        cons = Consumers("c14", nbins=6)
        for r, c in sample:
            cons.add_case("d%s" % vlib.stable_hash(c), "#![allow(warnings)]\n" + r["tokens"], "MyOp")
        errs = cons.build()
        payload = {"only": {"oa": 1, "ob": "x"}, "deep": {"c": {"oc": {"d": 1}, "od": 2}},
                   "t": {"id": "1", "a": 1, "al": "x", "c": {"d": 2}, "d": 3, "fa": 1, "fb": "y", "d2": 3},
                   "node": {"__typename": "T", "id": 7, "a": 4, "b": "z", "d": 5, "c": {"d": 6}}}
        vj = []
        for r, c in sample:
            cid = "d%s" % vlib.stable_hash(c)
            if cid in errs:
                ck.violation("deny-compile-%s" % cid, {"case": c, "errors": errs[cid][:3]},
                             "C14: code generated under deny does not compile: %s" % errs[cid][0][:200], case_key="deny-compile")
                continue
            vj.append({"id": cid, "case": cid, "kind": "resp", "input": payload})
        for cid, o in cons.run(vj).items():
            ck.count()
            if "ok" not in o:
                ck.violation("deny-payload-%s" % cid, {"payload": payload, "observed": o},
                             "C14: under deny a payload that contains the omitted fields no longer deserialises: %s" % o,
                             case_key="deny-payload")
    ck.assumptions += ["the deprecation that counts is the one declared by the type in whose scope the field is selected (object vs interface)",
                       "reason texts include quotes, backslash, non-ASCII and attribute-like text"]
    return ck.finish(exhaustive=(tier == "thorough"), rule="every assignment of 4 deprecation states to 4 probe fields x 4 strategies x 2 schema formats "
                                                           "(quick: seeded sample of 800); 17 selected members checked per case (including selection sets whose members are all deprecated)")


if __name__ == "__main__":
    sys.exit(main("quick"))
