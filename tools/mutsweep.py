"""Operator-mutation sweep (an unbiased complement to the seeded changes written by sub-agents).

Single-token mutations (== <-> !=, && <-> ||, true <-> false, dropped `!`, is_some <-> is_none, first <-> last,
>= <-> >, off-by-one, ...) at random places of the library / runtime / derive / CLI sources.  A mutant is
first run against the project's own suite in a scratch clone outside /repo and /verif; only mutants that
compile and PASS the suite (the ones the existing tests cannot see) are applied to /repo and run against
the quick checks of the properties that depend on the mutated crate.  /repo is always restored.

usage: mutsweep.py <number of candidates> [seed]      (results: /verif/mutation_sweep/results.json)
"""
import json, os, random, re, subprocess, sys, time, concurrent.futures

SCRATCH = "/tmp/mut"
OUT = "/verif/mutation_sweep"
FILES = {
    "graphql_client_codegen/src/codegen.rs": "codegen", "graphql_client_codegen/src/codegen/selection.rs": "codegen",
    "graphql_client_codegen/src/codegen/inputs.rs": "codegen", "graphql_client_codegen/src/codegen/enums.rs": "codegen",
    "graphql_client_codegen/src/codegen/shared.rs": "codegen", "graphql_client_codegen/src/codegen_options.rs": "codegen",
    "graphql_client_codegen/src/generated_module.rs": "codegen", "graphql_client_codegen/src/lib.rs": "codegen",
    "graphql_client_codegen/src/normalization.rs": "codegen", "graphql_client_codegen/src/query.rs": "codegen",
    "graphql_client_codegen/src/query/selection.rs": "codegen", "graphql_client_codegen/src/query/validation.rs": "codegen",
    "graphql_client_codegen/src/query/fragments.rs": "codegen", "graphql_client_codegen/src/schema.rs": "codegen",
    "graphql_client_codegen/src/schema/graphql_parser_conversion.rs": "codegen",
    "graphql_client_codegen/src/schema/json_conversion.rs": "codegen", "graphql_client_codegen/src/type_qualifiers.rs": "codegen",
    "graphql_client/src/lib.rs": "runtime", "graphql_client/src/serde_with.rs": "runtime",
    "graphql_query_derive/src/lib.rs": "derive", "graphql_query_derive/src/attributes.rs": "derive",
    "graphql_client_cli/src/generate.rs": "cli", "graphql_client_cli/src/introspection_schema.rs": "cli",
    "graphql_client_cli/src/main.rs": "cli",
}
CHECKS = {
    "codegen": ["C01", "C02", "C03", "C04", "C05", "C06", "C07", "C08", "C09", "C10", "C11", "C12", "C13", "C14", "C16", "C17"],
    "runtime": ["C15", "C16", "C01", "C03", "C05", "C04"],
    "derive": ["C18", "C02", "C09"],
    "cli": ["C19", "C20", "C02"],
}
OPS = [(r"==", "!="), (r"!=", "=="), (r"&&", "||"), (r"\|\|", "&&"), (r"\btrue\b", "false"), (r"\bfalse\b", "true"),
       (r"\.is_some\(\)", ".is_none()"), (r"\.is_none\(\)", ".is_some()"), (r"\.first\(\)", ".last()"), (r"\.last\(\)", ".first()"),
       (r">=", ">"), (r"<=", "<"), (r"\+ 1\b", "+ 2"), (r"\b0\b", "1"), (r"\b1\b", "0"),
       (r"if !", "if "), (r"\.is_empty\(\)", ".len() == 1"), (r"\| !", "| "), (r"Some\(true\)", "Some(false)"),
       (r"^(\s*)([a-z_\.]+\.(push|insert|extend|push_str)\(.*\);)\s*$", r"\1// \2"), (r"\bcontinue;", "break;"), (r"\.unwrap_or_default\(\)", ".unwrap()"),
       (r"\.any\(", ".all("), (r"\.all\(", ".any("), (r"\.skip\(1\)", ".skip(0)"), (r"unwrap_or\(false\)", "unwrap_or(true)"),
       (r"unwrap_or\(true\)", "unwrap_or(false)")]


def sh(cmd, cwd, timeout=1800, env=None):
    return subprocess.run(cmd, cwd=cwd, stdout=subprocess.PIPE, stderr=subprocess.STDOUT, text=True, timeout=timeout,
                          env=dict(os.environ, CARGO_NET_OFFLINE="true", **(env or {})))


def candidates():
    out = []
    for f in FILES:
        lines = open(os.path.join(SCRATCH, f)).read().split("\n")
        in_test = False
        skip_next = 0
        for ln, line in enumerate(lines):
            st = line.strip()
            if st.startswith("#[cfg(test)]"):
                in_test = True
            if in_test:
                continue
            if "graphql_client_verif" in line:
                skip_next = 3
                continue
            if skip_next:
                skip_next -= 1
                continue
            if st.startswith("//") or st.startswith("#[") or st.startswith("use ") or "verif::" in line or "verif_" in line:
                continue
            code = line.split("//")[0]
            for oi, (pat, rep) in enumerate(OPS):
                for m in re.finditer(pat, code):
                    # not inside a string literal (roughly: an even number of quotes before the match)
                    if code[:m.start()].count('"') % 2 == 1:
                        continue
                    out.append({"file": f, "line": ln + 1, "col": m.start(), "op": "%s -> %s" % (pat, rep), "oi": oi,
                                "before": line, "after": code[:m.start()] + m.expand(rep) + code[m.end():] + line[len(code):]})
    return out


def suite(cwd):
    p = sh(["cargo", "test", "--workspace", "--no-fail-fast", "--offline"], cwd, env={"CARGO_TARGET_DIR": os.path.join(SCRATCH, "target")})
    passed = failed = 0
    for m in re.finditer(r"^test result: \w+\. (\d+) passed; (\d+) failed", p.stdout, re.M):
        passed += int(m.group(1))
        failed += int(m.group(2))
    built = "could not compile" not in p.stdout and "error[" not in p.stdout and "error:" not in p.stdout.replace("error: test failed", "")
    return built, passed, failed


def run_check(c):
    try:
        p = subprocess.run(["./check", c, "--tier", "quick"], cwd="/verif", stdout=subprocess.PIPE, stderr=subprocess.PIPE, text=True,
                           timeout=1500, env=dict(os.environ, VERIF_REPLAYING="1"))
        nv = len([l for l in p.stdout.splitlines() if l.startswith("VIOLATION")])
        first = next((l.strip()[:260] for l in p.stderr.splitlines() if l.strip().startswith("->")), "")
        return c, {"exit": p.returncode, "violation_lines": nv, "first_report": first}
    except subprocess.TimeoutExpired:
        return c, {"exit": 2, "violation_lines": 0, "first_report": "timeout"}


def main():
    n = int(sys.argv[1])
    seed = int(sys.argv[2]) if len(sys.argv) > 2 else 1
    os.makedirs(OUT, exist_ok=True)
    if not os.path.isdir(SCRATCH):
        sh(["git", "clone", "-q", "/repo", SCRATCH], "/tmp")
    sh(["git", "checkout", "-q", "--", "."], SCRATCH)
    sh(["git", "pull", "-q"], SCRATCH)
    built, passed, failed = suite(SCRATCH)
    print("baseline suite in scratch clone:", built, passed, failed, flush=True)
    assert built and failed == 0 and passed >= 62
    cands = candidates()
    rng = random.Random(seed)
    # stratified by crate so that the small crates are not drowned out
    by = {}
    for c in cands:
        by.setdefault(FILES[c["file"]], []).append(c)
    quota = {"codegen": int(n * 0.7), "runtime": int(n * 0.12), "derive": int(n * 0.08), "cli": n - int(n * 0.7) - int(n * 0.12) - int(n * 0.08)}
    chosen = []
    for k, q in quota.items():
        chosen += rng.sample(by.get(k, []), min(q, len(by.get(k, []))))
    print("candidates: %d, chosen: %d" % (len(cands), len(chosen)), flush=True)
    respath = os.path.join(OUT, "results_seed%d.json" % seed)
    results = []
    for k, c in enumerate(chosen):
        path = os.path.join(SCRATCH, c["file"])
        src = open(path).read().split("\n")
        assert src[c["line"] - 1] == c["before"]
        src[c["line"] - 1] = c["after"]
        open(path, "w").write("\n".join(src))
        t0 = time.time()
        built, passed, failed = suite(SCRATCH)
        diff = sh(["git", "diff"], SCRATCH).stdout
        sh(["git", "checkout", "-q", "--", "."], SCRATCH)
        rec = {"n": k, "file": c["file"], "line": c["line"], "op": c["op"], "before": c["before"].strip(), "after": c["after"].strip(),
               "suite": "does not compile / fails" if not built else "%d passed, %d failed" % (passed, failed)}
        if built and failed == 0 and passed >= 62:
            # survives the project's tests: does the framework see it?
            open("/tmp/mut_current.diff", "w").write(diff)
            subprocess.run(["git", "-C", "/repo", "apply", "/tmp/mut_current.diff"], check=True)
            try:
                with concurrent.futures.ThreadPoolExecutor(max_workers=4) as ex:
                    rs = dict(ex.map(run_check, CHECKS[FILES[c["file"]]]))
            finally:
                subprocess.run(["git", "-C", "/repo", "checkout", "--", "."], check=True)
            rec["checks"] = rs
            rec["reported_by"] = sorted(x for x, r in rs.items() if r["exit"] == 1 and r["violation_lines"] > 0)
            rec["tool_errors"] = sorted(x for x, r in rs.items() if r["exit"] == 2)
            rec["diff"] = diff
        rec["wall_s"] = round(time.time() - t0)
        results.append(rec)
        json.dump(results, open(respath, "w"), indent=1)
        print(k, c["file"].split("/")[-1], c["line"], c["op"], "|", rec["suite"], "|", rec.get("reported_by", "-"), rec.get("tool_errors", ""), flush=True)
    surv = [r for r in results if "checks" in r]
    print("survived the suite: %d of %d; reported by a check: %d; not reported: %d" % (
        len(surv), len(results), len([r for r in surv if r["reported_by"]]), len([r for r in surv if not r["reported_by"]])))


if __name__ == "__main__":
    main()
