"""C06 - operations the schema cannot answer are never turned into code.

TLC (MC_C06 = ProgGen + Edits) generates supported programs and, for each, the
catalogue of single invalidating edits; the lemma that every edit really breaks
reference validity is checked by TLC itself.  This driver renders each edited
document, calls the real generator and demands that it never returns Ok.
"""
import json, os, random, sys
import vlib, render, prog
from vlib import Check, ToolError

PROP = "C06"


def schema_files(sj, workdir):
    os.makedirs(workdir, exist_ok=True)
    out = {}
    for variant in ("full", "noMutation", "noSubscription"):
        sch = prog.schema_from_tla(sj, variant)
        p1 = os.path.join(workdir, "universe_%s.graphql" % variant)
        vlib.write_if_changed(p1, render.sdl(sch))
        p2 = os.path.join(workdir, "universe_%s.json" % variant)
        vlib.write_if_changed(p2, render.introspection_json(sch))
        # the same schema with the conventional root names Query/Mutation/Subscription and an explicit
        # `schema {}` block that lists only the roots the variant has (a type called Mutation may exist
        # without being the mutation root)
        dsch = prog.rename_types(sch, prog.DEFAULT_ROOT_NAMES)
        p3 = os.path.join(workdir, "universe_%s_defaultnames.graphql" % variant)
        vlib.write_if_changed(p3, render.sdl(dsch))
        out[variant] = {"sdl": p1, "json": p2, "sdl_defaultnames": p3}
    return out


def tlc_programs(ck, tier):
    progs, sj = [], None
    runs = []
    if tier == "quick":
        runs.append(("MC_C06_sim.cfg", dict(simulate=600, depth=80)))
    else:
        runs.append(("MC_C06_small.cfg", dict(workers=8, heap="12g", timeout=3000)))
        runs.append(("MC_C06_sim.cfg", dict(simulate=6000, depth=80)))
    for cfg, kw in runs:
        res = vlib.run_tlc("MC_C06", cfg, **kw)
        ck.add_tlc(res)
        if res["violated"]:
            raise ToolError("MC_C06 (%s): %s violated - the edit catalogue or the reference validity is wrong:\n%s"
                            % (cfg, res["violated"], res["out"][-3000:]))
        vlib.tlc_must_pass(res)
        sj = res["cases"]["SCHEMA"][0]
        progs += res["cases"].get("PROG", [])
    seen, uniq = set(), []
    for p in progs:
        h = vlib.stable_hash(p["doc"])
        if h not in seen:
            seen.add(h)
            uniq.append(p)
    return sj, uniq


def run(ck, sj, progs, workdir, fmts=("sdl",)):
    files = schema_files(sj, workdir)
    jobs, meta = [], {}
    n = 0
    for pi, p in enumerate(progs):
        base_text = prog.doc_text(p["doc"])
        for fmt in fmts:
            jid = "p%d/base/%s" % (pi, fmt)
            jobs.append({"id": jid, "schema_path": files["full"][fmt], "query": base_text,
                         "options": {"mode": "cli"}, "want_tokens": False})
            meta[jid] = (pi, None, fmt, base_text)
        for ei, e in enumerate(p["edits"]):
            edited = prog.apply_edit(p["doc"], e)
            text = prog.doc_text(edited)
            for fmt in fmts:
                jid = "p%d/e%d/%s" % (pi, ei, fmt)
                jobs.append({"id": jid, "schema_path": files[e["variant"]][fmt], "query": text,
                             "options": {"mode": "cli"}, "want_tokens": False})
                meta[jid] = (pi, ei, fmt, text)
    results, proc = vlib.gqlv("gen", jobs, timeout=3000)
    if len(results) != len(jobs):
        raise ToolError("gqlv gen: %d results for %d jobs\n%s" % (len(results), len(jobs), proc.stderr[-2000:]))
    base_ok = {}
    rules = {}
    for r in results:
        pi, ei, fmt, text = meta[r["id"]]
        if ei is None:
            base_ok[(pi, fmt)] = r["status"] == "ok"
            if r["status"] != "ok":
                ck.notes.setdefault("base_not_generated", 0)
                ck.notes["base_not_generated"] += 1
                ck.notes.setdefault("base_not_generated_examples", [])
                if len(ck.notes["base_not_generated_examples"]) < 3:
                    ck.notes["base_not_generated_examples"].append({"query": text, "result": r})
    for r in results:
        pi, ei, fmt, text = meta[r["id"]]
        if ei is None:
            continue
        if not base_ok.get((pi, fmt)):
            continue   # an edit of a program that does not generate proves nothing (C02 reports that)
        e = progs[pi]["edits"][ei]
        rule = e["rule"]
        rules[rule.split(":")[0]] = rules.get(rule.split(":")[0], 0) + 1
        ck.count()
        if len(ck.cov["samples"]) < 4 and ei % 7 == 0:
            ck.sample({"rule": rule, "at": e["at"], "schema_variant": e["variant"], "query": text,
                       "observed": r["status"], "msg": (r.get("msg") or "")[:200]})
        if r["status"] == "ok":
            key = "%s|%s" % (rule, fmt)
            ck.violation("%s-%s" % (rule, vlib.stable_hash(text)),
                         {"rule": rule, "at": e["at"], "schema_variant": e["variant"], "schema_format": fmt,
                          "schema_path": files[e["variant"]][fmt], "query": text,
                          "valid_original": prog.doc_text(progs[pi]["doc"]), "edit": e,
                          "doc": progs[pi]["doc"], "observed": "Ok (code was generated)"},
                         "C06 %s: generation succeeded for an operation invalid by rule `%s` (node %s):\n%s"
                         % (fmt, rule, e["at"], text), case_key=key, signature=rule)
    ck.notes["edits_by_rule"] = rules
    return rules


REQUIRED_RULES = ["unknownField", "subselectionOnLeaf", "subselectionOnTypename", "aliasedTypename", "noSubselectionOnComposite", "undefinedFragment",
                  "unknownTypeCondition", "unknownTypeConditionOnFragment", "impossibleTypeCondition",
                  "impossibleFragmentSpread", "typenameRemoved", "abstractSelectionWithoutTypename", "subscriptionSecondRoot", "subscriptionRootsAfterAnotherSubscription",
                  "anonymousOperation", "bareSelectionSet", "noRootType"]


def main(tier, replay=None, selftest=False):
    ck = Check(PROP, tier)
    workdir = os.path.join(vlib.WORK, "c06")
    if replay:
        rep = json.load(open(replay))
        sj = json.load(open(os.path.join(workdir, "schema.json")))
        p = {"doc": rep["doc"], "edits": [rep["edit"]]}
        run(ck, sj, [p], workdir, fmts=(rep.get("schema_format", "sdl"),))
        return ck.finish(exhaustive=False, rule="replay")
    vlib.build_harness()
    sj, progs = tlc_programs(ck, tier)
    os.makedirs(workdir, exist_ok=True)
    json.dump(sj, open(os.path.join(workdir, "schema.json"), "w"))
    if len(progs) < 50:
        raise ToolError("vacuous: only %d programs" % len(progs))
    rng = random.Random(vlib.seed())
    if tier == "thorough" and len(progs) > 12000:
        # exhaustive enumeration is large; every program of the simulation part and a seeded
        # sample of the exhaustive part are replayed
        progs = rng.sample(progs, 12000)
    if selftest:
        # drop the edit from one case: an unedited (valid) document must be reported as accepted
        progs[0]["edits"].append({"rule": "selftest-noop", "at": 0, "variant": "full",
                                  "nset": {"i": 0, "f": "", "v": ""}, "dset": {"d": 0, "name": "", "kind": "", "on": ""},
                                  "app": [], "keepAll": True, "keep": [], "dapp": []})
    rules = run(ck, sj, progs, workdir, fmts=("sdl", "json", "sdl_defaultnames"))
    missing = [r for r in REQUIRED_RULES if not rules.get(r)]
    if missing:
        raise ToolError("vacuous: no edit of kind %s was exercised" % missing)
    ck.cov["programs"] = len(progs)
    ck.assumptions += [
        "reference validity (Gql!Valid) is the rule catalogue of the property over the universe schema family",
        "an Err or a panic with a message both count as an error; only Ok is a violation",
        "edits of programs whose unedited form does not generate are skipped (reported by C02)",
    ]
    return ck.finish(exhaustive=(tier == "thorough"),
                     rule="programs from ProgGen (%s) x every edit of Edits.tla at every applicable node; "
                          "distinct = distinct (document, edit) pairs" % (
                              "seeded simulation" if tier == "quick" else "exhaustive small bound + seeded simulation"))


if __name__ == "__main__":
    sys.exit(main("quick"))
